"""C05 — names resolve to the innermost visible binding; scopes end where they end.

Workload: random programs over the identifier pool {a, b, c, d} (plus, rarely, the built-in names `u8` and `nil`) made of
nested blocks (plain, if/else, while, block expressions), shadowing redefinitions in the same block (`a := 1; a := a + K;`),
switches with an argument (`switch a in mk(.., <payload>) { .X => {..}, .Y => {..} }`, as statement and as expression, the
payload itself being a use), global functions with (comptime) parameters, non-capturing local lambdas (also nested), comptime
blocks (`comptime { .. }` and `comptime switch ..`) and literal globals placed before / between / after the functions. Every
binding holds an i64 (switch arguments: the i64 payload of a variant) with a value no other binding has: a literal, or the value
of a use plus a random constant. Every use site is `pr(id, i64.(name))` (a global function that prints `I id value` through
vr_i64 and returns the value); uses inside comptime blocks are silent and the value of the whole block is printed.

Identifiers in TYPE positions: a second pool {T, U, u16} of type-valued bindings (type globals `T :: i32;`, `comptime T: type` parameters of the
global functions, local aliases `T :: i8;`; `u16` is also a built-in), every binding denoting one of i8/i16/u32/i32/i64.  Uses: a cast
`pr(id, i64.(T.(probe)))`, a local annotation `t : T = C.(probe); pr(id, i64.(t * t))` (C = the type the oracle predicts, written literally), and the
parameter type / return type in the HEADER of a local lambda (`g :: (a: i64, x7: T) -> T { .. x7 * x7 }`, observed through `r := g(.., C.(probe));
pr(id, i64.(r * r))`).  The probe has bits 7, 15, 31 and 63 set, so the wrapped values differ for every type and a silently different resolution
(e.g. the same-named global instead of the comptime parameter) changes the printed number; without a same-named outer binding it shows as a
spurious `undefined reference`.  A header is looked up where the lambda is declared (enclosing blocks and parameters of the ENCLOSING lambda).

Some programs import a second file that defines a global for every pool name (never visible to a bare identifier of main.capy); some
statements are assignments `a = ..` whose target is a use like any other.

Monitors.  Pass 1: the program as generated is compiled; the set of `undefined reference to` diagnostics (name, line, column) is
compared with the set of use sites the oracle predicts to have no visible binding.  Pass 2: the uses that are predicted or reported
undefined are replaced by the literal 0, the program must now be accepted, it is linked and run for up to three selector values (bit d
of VR_SEL picks the branch / variant of every if / switch at branching depth d), and the value printed by every executed use is
compared with the value of the binding the oracle resolves the use to.  Three kinds of programs: positive (55 %: every use that would
be undefined is renamed to a name that is visible there, so pass 1 = pass 2: one compilation), negative (30 %: pass 1 only), mixed
(15 %: both passes).

Oracle: a scope model that implements the statement's lookup order literally (frames of the enclosing blocks and switch arms of
the current lambda, innermost first, a definition becoming visible after its own initialiser; then the parameters of the current
lambda; then the file's globals, independent of textual order; then built-in names), frames popped at the end of their block /
arm, lambdas and comptime blocks starting from an empty frame stack (and comptime blocks without parameters), restored afterwards;
plus an interpreter of the generated AST that computes the value of every binding for a given selector.
"""
import json
import os
import re
import shutil
import time

from .. import common as C
from .. import capyrun as R

RULE = ("program = 1..3 global functions (0..3 parameters, some comptime) + main, bodies of nested blocks / if-else / while / block expressions / "
        "switches with argument (statement and expression form, arms in both orders) / local lambdas / comptime blocks, identifiers drawn from "
        "{a,b,c,d} (weight 4 each) and {u8,nil} (weight 1 each), literal globals for a random subset of the names at random positions of the file; "
        "after a statement that binds names, a use of one of those names follows with probability 1/2 (uses after a switch / block / lambda of the "
        "names bound inside), a use of the defined name precedes a definition with probability 1/6; assignments to pool names; type-position uses of a second pool "
        "{T,U,u16} (cast, local annotation, parameter and return type in the header of every second local lambda) over type globals, comptime type parameters "
        "(every second global function), local aliases and the built-in u16; one program in three imports a "
        "file with same-named globals; 30..90 use sites per program; 55 % positive programs (no undefined use, compiled once, run for <= 3 selector values), "
        "30 % negative (only the diagnostics are judged), 15 % mixed (both passes). "
        "non-trivial use = a use site whose verdict was reached (pass-1 diagnostic position and, if executed, printed value); "
        "distinct = distinct (context fn/lambda/comptime/generic, kinds of the visible bindings of that name innermost first, set of (kind, position class) of the "
        "same-named bindings of the function that are not visible there [ended switch arm / block / lambda, later, own initialiser, across a lambda / comptime "
        "boundary, imported file], resolved kind or undefined) tuples of uses whose verdict was reached; "
        "evaluations = programs for which both passes reached a verdict")
ASSUME = ["a lambda body and a comptime block start from an empty stack of block scopes: locals and switch arguments of the enclosing function are not "
          "visible inside them (the repo's lowering snapshot `lambda_dont_capture_scope` pins this for lambdas; capy has no closures); inside a lambda "
          "only its own parameters, inside a comptime block no parameters are visible; globals and built-in names are visible in both",
          "a definition `a := <init>` becomes visible after its initialiser: uses inside <init> see the outer `a`",
          "globals are visible in the whole file independent of textual order",
          "for the built-in level only the order is judged: a use of `u8` / `nil` with a visible local / parameter / global binding must print that binding's "
          "value; without one the identifier must denote the built-in (observed as `t : u8 = 9` / `t : ?i64 = nil` being accepted and behaving as such) and "
          "must not be reported as undefined",
          "the header (parameter types, return type) of a lambda declared inside another lambda's body is part of the ENCLOSING body: its identifiers see the "
          "enclosing blocks' locals and the enclosing lambda's (comptime) parameters, then globals, then built-ins (the unchanged tree does exactly this: "
          "`inc :: (x: T) -> T` inside `bump :: (comptime T: type, ..)` sees the parameter, also with a global `T`; a local alias `T :: i16` before the lambda wins "
          "over both); the nested lambda's BODY does not see them (annotation / cast of `T` there denotes the global `T` or is undefined)",
          "not generated (lookup scope not fixed by the statement or crashing for other reasons): pool names in the header of a GLOBAL function or of a lambda that "
          "has comptime parameters of its own (own header parameters come first in capy), local lambdas with comptime parameters (panic in codegen "
          "functions.rs `try_naive` assertion: C16 matter), type uses inside comptime blocks, switch arm patterns, labels, member names",
          "comptime blocks are not generated inside functions with comptime parameters (find_comptimes hits todo!() there: C06/C16 matter)",
          "a rejection of the pass-2 program counts as a violation only if a diagnostic points at a line that holds a use site; other rejections are generator errors"]

POOL = ["a", "b", "c", "d"]
BUILTIN = ["u8", "nil"]
NAME_W = [("a", 4), ("b", 4), ("c", 4), ("d", 4), ("u8", 1), ("nil", 1)]
# identifiers in TYPE positions: type-valued bindings (type globals `T :: i64;`, comptime type parameters, local aliases `T :: u8;`) of these names;
# `u16` is also a built-in.  Every binding denotes one of TYPES; which one a use sees is observed through wrapping arithmetic on a probe value.
TPOOL = ["T", "U"]
TBUILTIN = ["u16"]
TNAME_W = [("T", 4), ("U", 4), ("u16", 1)]
TYPES = ["i8", "i16", "u32", "i32", "i64"]      # what a type binding may denote; written literally in the programs, so no name of either pool (u8, u16) is among them
ALL_TYPES = TYPES + TBUILTIN                      # what a use may denote
PROBE = 0x876543218ABC9DE1 - (1 << 64)      # bits 7, 15, 31 and 63 set: the value differs for every type of TYPES after a cast, and so do its wrapped squares
MAX_BDEPTH = 3
MAX_DEPTH = 5
BUILTIN_VALUE = 9
VIOLATION_CAP = 40
# where a no-longer / not-yet visible binding of the same name lies relative to a use (see relation()); the order only picks the class named in a signature
GHOST_ORDER = ["ended_switch_arm", "ended_block", "ended_lambda", "sibling_branch_of_same_statement", "own_initialiser", "later_in_enclosing_block",
               "later_nested", "across_lambda_boundary", "across_comptime_boundary", "global_of_imported_file"]



def wrap(v, ty):
    w = int(ty[1:])
    v &= (1 << w) - 1
    return v - (1 << w) if ty[0] == "i" and v >> (w - 1) else v


def probe_cast(ty):
    """i64.(ty.(PROBE))"""
    return wrap(PROBE, ty)


def probe_sq(ty, argty=None):
    """x : ty = argty.(PROBE); i64.(x * x)       (argty = ty unless a wrong resolution is being decoded)"""
    c = wrap(wrap(PROBE, argty or ty), ty)
    return wrap(c * c, ty)


def probe_call(c1, c2, argty=None):
    """h :: (x: c1) -> c2 { x * x } (c2 None: -> i64 { i64.(x * x) });  r := h(argty.(PROBE)); i64.(r * r)   (c2 None: the call's value)"""
    q = probe_sq(c1, argty)
    if c2 is None:
        return q
    r = wrap(q, c2)
    return wrap(r * r, c2)


HELPERS = """pr :: (id: i64, v: i64) -> i64 { vr_i64(id, v); v }
bit :: (d: i64) -> bool { (vr_sel() / d) % 2 == 1 }
E :: enum { X: i64, Y: i64 };
mk :: (x: bool, v: i64) -> E { if x { E.(E.X.(v)) } else { E.(E.Y.(v)) } }
mk_u16 :: (v: i64) -> u16 { u16.(v) }
"""


# --------------------------------------------------------------------------- AST of generated programs

class Lit:
    def __init__(self, v):
        self.v = v


class Use:
    def __init__(self, name, uid, k, ct):
        self.name, self.uid, self.k, self.ct = name, uid, k, ct
        self.res = None        # Binding | "undef" | "builtin"   (set by the oracle)
        self.line = self.col = None
        self.scope = None
        self.pos = None
        self.stack = None
        self.fn = None
        self.is_target = False
        self.sort = "value"
        self.form = "value"


class TUse(Use):
    """a pool name in a type position. forms: cast `pr(id, i64.(T.(probe)))`, annot `{ t : T = C.(probe); pr(id, i64.(t * t)) }` (C = the type the oracle
    predicts), ptype / rtype = parameter type / return type in the header of a local lambda (observed through the lambda's call)"""
    def __init__(self, name, uid, form):
        Use.__init__(self, name, uid, 0, False)
        self.sort = "type"
        self.form = form


class TDef:
    """local type alias `T :: u8;`"""
    def __init__(self, name, ty):
        self.name, self.ty = name, ty
        self.binding = None


class TGlobal:
    def __init__(self, name, ty):
        self.name, self.ty = name, ty
        self.binding = None


class Block:
    def __init__(self, stmts, tail):
        self.stmts, self.tail = stmts, tail


class If:
    def __init__(self, depth, const, then, els):
        self.depth, self.const, self.then, self.els = depth, const, then, els


class Switch:
    def __init__(self, arg, payload, depth, const, arms):
        self.arg, self.payload, self.depth, self.const = arg, payload, depth, const
        self.arms = arms       # [[variant, Block, Binding|None]]


class Comptime:
    def __init__(self, body, oid):
        self.body, self.oid = body, oid


class Call:
    def __init__(self, lam, args, oid):
        self.lam, self.args, self.oid = lam, args, oid


class Def:
    def __init__(self, name, init, form):
        self.name, self.init, self.form = name, init, form
        self.binding = None


class ExprS:
    def __init__(self, e):
        self.e = e


class LamDef:
    def __init__(self, lam):
        self.lam = lam


class While:
    def __init__(self, body, wid):
        self.body, self.wid = body, wid


class Assign:
    """`name = rhs;` when the oracle resolves `name` to a mutable local (`:=` / `: i64 =`) or to nothing (then the target must be reported as undefined);
    for any other resolution the statement is rendered as a read of `name` followed by the rhs (assigning to those is C14's matter)"""
    def __init__(self, target, rhs):
        self.target, self.rhs = target, rhs


class Lambda:
    def __init__(self, name, params, body, is_global):
        self.name, self.params, self.body, self.is_global = name, params, body, is_global   # params: [(name, comptime)]
        self.pbind = {}
        self.tparams = []          # global functions: [(name, type passed by the single call)]  `comptime T: type`
        self.tx = self.tret = None  # local lambdas: TUse of the extra parameter's type / of the return type (`h :: (.., x7: T) -> T { .. x7 * x7 }`)
        self.xname = None


class Global:
    def __init__(self, name, value):
        self.name, self.value = name, value
        self.binding = None


class Import:
    """`o :: #import("o.capy");` where o.capy defines a global for every pool name: none of them may ever be seen by a bare identifier of main.capy"""
    def __init__(self, values):
        self.values = values      # {name: value}
        self.bindings = {}


class Foreign:
    """`pr(oid, o.NAME)`: keeps the import alive"""
    def __init__(self, name, oid):
        self.name, self.oid = name, oid


class Program:
    def __init__(self, items, main, nbits):
        self.items, self.main, self.nbits = items, main, nbits     # items: Global | Import | Lambda in file order (main included)
        self.imp = None


class Ctx:
    def __init__(self, ct=False, generic=False, bdepth=0, depth=0):
        self.ct, self.generic, self.bdepth, self.depth = ct, generic, bdepth, depth

    def deeper(self, branch=False):
        return Ctx(self.ct, self.generic, self.bdepth + (1 if branch and not self.ct else 0), self.depth + 1)


# --------------------------------------------------------------------------- generator

class Gen:
    def __init__(self, rng, budget):
        self.rng = rng
        self.budget = budget
        self.uid = 0
        self.val = 10
        self.tmp = 0
        self.maxbit = 0

    def new_uid(self):
        self.uid += 1
        return self.uid

    def new_val(self):
        self.val += 1
        return self.val

    def new_k(self):
        return self.rng.range(1, 10 ** 9) * 10000

    def new_tmp(self):
        self.tmp += 1
        return self.tmp

    def name(self):
        return self.rng.weighted(NAME_W)

    def tuse(self, name=None, form=None):
        self.budget -= 1
        return TUse(name or self.rng.weighted(TNAME_W), self.new_uid(), form or self.rng.pick(["cast", "annot"]))

    def any_use(self, ctx, name):
        """a use of `name` of the right sort (None where type uses are not generated)"""
        if name in TPOOL or name in TBUILTIN:
            return None if ctx.ct else self.tuse(name)
        return self.use(ctx, name, 0)

    def use(self, ctx, name=None, k=None):
        self.budget -= 1
        if k is None:
            k = self.new_k() if self.rng.chance(2, 3) else 0
        return Use(name or self.name(), self.new_uid(), k, ctx.ct)

    def simple(self, ctx):
        if self.rng.chance(1, 4):
            return Lit(self.new_val())
        return self.use(ctx)

    def expr(self, ctx):
        rng = self.rng
        if ctx.depth >= MAX_DEPTH or self.budget <= 0:
            return self.simple(ctx)
        can_branch = ctx.ct or ctx.bdepth < MAX_BDEPTH
        opts = [("lit", 3), ("use", 10), ("block", 2)]
        if can_branch:
            opts += [("if", 2), ("switch", 3)]
        if not ctx.ct and not ctx.generic:
            opts.append(("comptime", 2))
        k = rng.weighted(opts)
        if k == "lit":
            return Lit(self.new_val())
        if k == "use":
            return self.use(ctx)
        if k == "block":
            return self.block(ctx.deeper(), True)
        if k == "if":
            return self.if_(ctx, True)
        if k == "switch":
            return self.switch(ctx, True)
        return self.comptime(ctx)

    def cond(self, ctx):
        """-> (bit depth or None, constant truth value)"""
        if ctx.ct:
            return None, self.rng.chance(1, 2)
        self.maxbit = max(self.maxbit, ctx.bdepth + 1)
        return ctx.bdepth, None

    def if_(self, ctx, valued):
        d, const = self.cond(ctx)
        inner = ctx.deeper(branch=True)
        return If(d, const, self.block(inner, valued), self.block(inner, valued))

    def switch(self, ctx, valued):
        d, const = self.cond(ctx)
        arg = self.name()
        payload = self.simple(ctx) if self.rng.chance(3, 4) else self.expr(ctx.deeper())
        inner = ctx.deeper(branch=True)
        order = ["X", "Y"] if self.rng.chance(1, 2) else ["Y", "X"]
        arms = [[v, self.block(inner, valued), None] for v in order]
        return Switch(arg, payload, d, const, arms)

    def comptime(self, ctx):
        inner = Ctx(ct=True, generic=ctx.generic, bdepth=ctx.bdepth, depth=max(ctx.depth + 1, MAX_DEPTH - 2))
        if self.rng.chance(1, 30):
            body = self.switch(inner, True)      # `comptime switch x in ..` (no block in between)
        else:
            body = self.block(inner, True)
        return Comptime(body, self.new_uid())

    def lambda_(self, ctx):
        n = self.rng.weighted([(0, 1), (1, 3), (2, 3)])
        names = self.rng.sample(POOL + BUILTIN, n) if self.rng.chance(1, 5) else self.rng.sample(POOL, n)
        lam = Lambda(f"g{self.new_tmp()}", [(x, False) for x in names], None, False)
        inner = Ctx(ct=False, generic=ctx.generic, bdepth=ctx.bdepth, depth=ctx.depth + 1)
        if self.rng.chance(1, 2):
            # pool name in the header: looked up where the lambda is declared (enclosing blocks and parameters), not inside the lambda
            lam.tx = self.tuse(None, "ptype")
            if self.rng.chance(1, 2):
                lam.tret = self.tuse(lam.tx.name, "rtype")
            lam.xname = f"x{self.new_tmp()}"
            lam.body = self.block(inner, False)
        else:
            lam.body = self.block(inner, True)
        return lam

    def call(self, ctx, lam):
        args = []
        for _, comptime in lam.params:
            args.append(Lit(self.new_val()) if comptime else self.simple(ctx))
        return ExprS(Call(lam, args, self.new_uid()))

    def stmt(self, ctx, pending):
        """-> list of statements"""
        rng = self.rng
        can_branch = ctx.ct or ctx.bdepth < MAX_BDEPTH
        deep = ctx.depth >= MAX_DEPTH
        opts = [("def", 8), ("use", 7), ("assign", 2)]
        if not ctx.ct:
            opts += [("tuse", 3), ("tdef", 2)]
        if not deep:
            opts.append(("block", 3))
            if can_branch:
                opts += [("if", 2), ("switch", 5)]
            if not ctx.ct:
                opts += [("lambda", 3), ("while", 1)]
            if not ctx.ct and not ctx.generic:
                opts.append(("comptime", 2))
        k = rng.weighted(opts)
        out = []
        if k == "def":
            name = self.name()
            if rng.chance(1, 6):
                out.append(ExprS(self.use(ctx, name, 0)))
            init = self.expr(ctx.deeper())
            if rng.chance(1, 4) and not isinstance(init, Use):
                init = self.use(ctx, name)          # `a := a + K`
            st = Def(name, init, rng.pick([":=", "::", ": i64 =", ": i64 :"]))
        elif k == "use":
            st = ExprS(self.use(ctx))
        elif k == "tuse":
            st = ExprS(self.tuse())
        elif k == "tdef":
            name = rng.weighted(TNAME_W)
            if rng.chance(1, 6):
                out.append(ExprS(self.tuse(name)))
            st = TDef(name, rng.pick(TYPES))
        elif k == "assign":
            target = self.use(ctx, None, 0)
            st = Assign(target, self.expr(ctx.deeper()))
            out.append(st)
            out.append(ExprS(self.use(ctx, target.name, 0)))
            return out
        elif k == "block":
            st = ExprS(self.block(ctx.deeper(), rng.chance(1, 3)))
        elif k == "if":
            st = ExprS(self.if_(ctx, rng.chance(1, 3)))
        elif k == "switch":
            st = ExprS(self.switch(ctx, rng.chance(1, 3)))
        elif k == "lambda":
            lam = self.lambda_(ctx)
            st = LamDef(lam)
            pending.append(lam)
        elif k == "while":
            st = While(self.block(ctx.deeper(), False), self.new_tmp())
        else:
            st = ExprS(self.comptime(ctx))
        out.append(st)
        bound = sorted(bound_names(st))
        if bound and rng.chance(1, 2):
            u = self.any_use(ctx, rng.pick(bound))
            if u is not None:
                out.append(ExprS(u))
        return out

    def block(self, ctx, valued, extra_calls=()):
        rng = self.rng
        hi = 5 if ctx.depth <= 1 else (3 if ctx.depth <= 3 else 2)
        n = rng.range(0 if ctx.depth > 1 else 2, hi)
        stmts = []
        pending = list(extra_calls)
        for _ in range(n):
            if self.budget <= 0:
                break
            stmts.extend(self.stmt(ctx, pending))
            while pending and rng.chance(1, 2):
                stmts.append(self.call(ctx, pending.pop(0)))
                if rng.chance(1, 2):
                    names = [p for p, _ in stmts[-1].e.lam.params]
                    if names:
                        stmts.append(ExprS(self.use(ctx, rng.pick(names), 0)))
        while pending:
            stmts.append(self.call(ctx, pending.pop(0)))
        tail = self.expr(ctx.deeper()) if valued else None
        return Block(stmts, tail)


def children(n):
    if isinstance(n, Block):
        return list(n.stmts) + ([n.tail] if n.tail is not None else [])
    if isinstance(n, If):
        return [n.then, n.els]
    if isinstance(n, Switch):
        return [n.payload] + [a[1] for a in n.arms]
    if isinstance(n, Comptime):
        return [n.body]
    if isinstance(n, Call):
        return list(n.args)
    if isinstance(n, Def):
        return [n.init]
    if isinstance(n, ExprS):
        return [n.e]
    if isinstance(n, LamDef):
        return [x for x in (n.lam.tx, n.lam.tret) if x is not None] + [n.lam.body]
    if isinstance(n, While):
        return [n.body]
    if isinstance(n, Assign):
        return [n.target, n.rhs]
    return []


def bound_names(n):
    out = set()
    if isinstance(n, (Def, TDef)):
        out.add(n.name)
    if isinstance(n, Switch):
        out.add(n.arg)
    if isinstance(n, LamDef):
        out.update(p for p, _ in n.lam.params)
    for c in children(n):
        out |= bound_names(c)
    return out


def gen_program(rng, budget):
    g = Gen(rng, budget)
    nf = rng.range(1, 3)
    fns = []
    share = budget // (nf + 1)
    for i in range(nf):
        n = rng.weighted([(0, 1), (1, 3), (2, 4), (3, 2)])
        names = rng.sample(POOL + BUILTIN, n) if rng.chance(1, 5) else rng.sample(POOL, n)
        generic = False
        params = []
        for x in names:
            cp = rng.chance(1, 5)
            generic = generic or cp
            params.append((x, cp))
        f = Lambda(f"f{i + 1}", params, None, True)
        if rng.chance(1, 2):
            f.tparams = [(rng.weighted(TNAME_W), rng.pick(TYPES))]
            generic = True
        g.budget = share
        f.body = g.block(Ctx(generic=generic, depth=0), True)
        fns.append(f)
    g.budget = share
    main = Lambda("main", [], None, True)
    main.body = g.block(Ctx(depth=0), False, extra_calls=fns)
    imp = None
    if rng.chance(1, 3):
        imp = Import({x: g.new_val() for x in POOL})
        main.body.stmts.insert(rng.below(len(main.body.stmts) + 1), ExprS(Foreign(rng.pick(POOL), g.new_uid())))
    gl_names = [x for x in POOL if rng.chance(2, 5)] + [x for x in BUILTIN if rng.chance(1, 6)]
    items = fns + [main]
    rng.shuffle(items)
    for x in gl_names:
        items.insert(rng.below(len(items) + 1), Global(x, g.new_val()))
    for x in [x for x in TPOOL if rng.chance(1, 2)] + [x for x in TBUILTIN if rng.chance(1, 6)]:
        items.insert(rng.below(len(items) + 1), TGlobal(x, rng.pick(TYPES)))
    if imp is not None:
        items.insert(rng.below(len(items) + 1), imp)
    prog = Program(items, main, g.maxbit)
    prog.imp = imp
    return prog


# --------------------------------------------------------------------------- the oracle: scope model

class Scope:
    def __init__(self, sid, kind, parent, ppos, fn):
        self.sid, self.kind, self.parent, self.ppos, self.fn = sid, kind, parent, ppos, fn


class Binding:
    def __init__(self, bid, kind, name, scope, pos):
        self.bid, self.kind, self.name, self.scope, self.pos = bid, kind, name, scope, pos
        self.mutable = False
        self.ty = None           # type-valued bindings: the type they denote


def concrete(u, zeroed=()):
    """the type a type use denotes by the oracle (pass 2 writes `i64` in place of a zeroed use)"""
    if u.uid in zeroed or u.res == "undef":
        return "i64"
    if u.res == "builtin":
        return u.name
    return u.res.ty


def assignable(u):
    return isinstance(u.res, Binding) and u.res.mutable


class Model:
    """lookup order of the statement: frames (blocks and switch arms of the current lambda, innermost first), parameters of the current
    lambda, globals, built-ins.  `mutant` deliberately breaks the model (self-test of the check's discriminating power only)."""

    def __init__(self, mutant=None):
        self.mutant = mutant
        self.frames = []
        self.params = {}
        self.globals = {}
        self.bindings = []
        self.uses = []
        self.nscope = 0
        self.fn = None
        self.ctxkind = "fn"
        self.generic = False

    def bind(self, kind, name, scope, pos):
        b = Binding(len(self.bindings), kind, name, scope, pos)
        self.bindings.append(b)
        return b

    def scope(self, kind, parent, ppos):
        self.nscope += 1
        return Scope(self.nscope, kind, parent, ppos, self.fn)

    def lookup(self, name):
        m = self.mutant
        if m == "param_first" and name in self.params:
            return self.params[name]
        if m == "global_first" and name in self.globals and not any(name in f for f in self.frames):
            return self.globals[name]
        for f in reversed(self.frames):
            if name in f:
                return f[name]
        if name in self.params:
            return self.params[name]
        if name in self.globals:
            return self.globals[name]
        if name in BUILTIN or name in TBUILTIN:
            return "builtin"
        return "undef"

    def resolve(self, prog):
        for it in prog.items:
            if isinstance(it, (Global, TGlobal)):
                it.binding = self.bind("global", it.name, None, -1)
                it.binding.ty = getattr(it, "ty", None)
                self.globals[it.name] = it.binding
            if isinstance(it, Import):
                for name in it.values:
                    it.bindings[name] = self.bind("imported_global", name, None, -1)      # never entered into any table: not visible
        for it in prog.items:
            if isinstance(it, Lambda):
                self.fn = it.name
                self.generic = any(c for _, c in it.params) or bool(it.tparams)
                self.lambda_(it, None, 0)
        return self

    def lambda_(self, lam, parent, ppos):
        # the header is written in the enclosing body: its identifiers see what an expression at that place sees
        for hu in (lam.tx, lam.tret):
            if hu is not None:
                hidden = self.params
                if self.mutant == "header_without_outer_params":
                    self.params = {}
                self.expr(hu, parent, ppos)
                self.params = hidden
        saved = (self.frames, self.params, self.ctxkind)
        sc = self.scope("lambda", parent, ppos)
        if self.mutant != "capture":
            self.frames = []
        else:
            self.frames = list(self.frames)
        self.params = {}
        for name, comptime in lam.params:
            b = self.bind("cparam" if comptime else "param", name, sc, -1)
            lam.pbind[name] = b
            self.params[name] = b
        for name, ty in lam.tparams:
            b = self.bind("cparam", name, sc, -1)
            b.ty = ty
            lam.pbind[name] = b
            self.params[name] = b
        self.ctxkind = "fn" if lam.is_global else "lambda"
        self.block(lam.body, sc, 0)
        if self.mutant == "no_restore":
            self.frames, self.ctxkind = saved[0], saved[2]
        else:
            self.frames, self.params, self.ctxkind = saved

    def block(self, b, parent, ppos):
        sc = self.scope("block", parent, ppos)
        frame = {}
        self.frames.append(frame)
        for i, st in enumerate(b.stmts):
            self.stmt(st, sc, i, frame)
        if b.tail is not None:
            self.expr(b.tail, sc, len(b.stmts))
        self.frames.pop()
        if self.mutant == "block_leak" and self.frames:
            self.frames[-1].update(frame)

    def stmt(self, st, sc, i, frame):
        if isinstance(st, Def):
            if self.mutant == "def_before_init":
                st.binding = self.bind("local", st.name, sc, i)
                st.binding.mutable = st.form in (":=", ": i64 =")
                frame[st.name] = st.binding
                self.expr(st.init, sc, i)
                return
            self.expr(st.init, sc, i)
            st.binding = self.bind("local", st.name, sc, i)
            st.binding.mutable = st.form in (":=", ": i64 =")
            frame[st.name] = st.binding
        elif isinstance(st, TDef):
            st.binding = self.bind("local", st.name, sc, i)
            st.binding.ty = st.ty
            frame[st.name] = st.binding
        elif isinstance(st, Assign):
            self.expr(st.target, sc, i)
            st.target.is_target = True
            self.expr(st.rhs, sc, i)
        elif isinstance(st, ExprS):
            self.expr(st.e, sc, i)
        elif isinstance(st, LamDef):
            self.lambda_(st.lam, sc, i)
        elif isinstance(st, While):
            self.block(st.body, sc, i)
        else:
            raise AssertionError(st)

    def expr(self, e, sc, i):
        if isinstance(e, (Lit, Foreign)):
            return
        if isinstance(e, Use):
            e.res = self.lookup(e.name)
            e.stack = [f[e.name].kind for f in reversed(self.frames) if e.name in f]
            e.stack += [t[e.name].kind for t in (self.params, self.globals) if e.name in t] + (["builtin"] if e.name in BUILTIN + TBUILTIN else [])
            e.visible = [n for n in (TPOOL + TBUILTIN if e.sort == "type" else POOL + BUILTIN) if not isinstance(self.lookup(n), str)]
            e.scope, e.pos, e.fn = sc, i, self.fn
            e.ctx = ("comptime" if e.ct else self.ctxkind) + ("/generic" if self.generic else "") + ("" if e.sort == "value" else "/type:" + e.form)
            self.uses.append(e)
        elif isinstance(e, Block):
            self.block(e, sc, i)
        elif isinstance(e, If):
            self.block(e.then, sc, i)
            self.block(e.els, sc, i)
        elif isinstance(e, Switch):
            self.expr(e.payload, sc, i)
            last = None
            for arm in e.arms:
                asc = self.scope("arm", sc, i)
                arm[2] = self.bind("swarg", e.arg, asc, -1)
                last = arm[2]
                self.frames.append({e.arg: arm[2]})
                self.block(arm[1], asc, 0)
                self.frames.pop()
            if self.mutant == "leak_swarg" and self.frames:
                self.frames[-1][e.arg] = last
        elif isinstance(e, Comptime):
            saved = (self.frames, self.params)
            csc = self.scope("comptime", sc, i)
            self.frames, self.params = [], {}
            if isinstance(e.body, Block):
                self.block(e.body, csc, 0)
            else:
                self.expr(e.body, csc, 0)
            self.frames, self.params = saved
        elif isinstance(e, Call):
            for a in e.args:
                self.expr(a, sc, i)
        else:
            raise AssertionError(e)


def use_chain(u):
    """[(scope, position inside it, boundary kind crossed before reaching it or None)] from the innermost scope outwards"""
    out = []
    s, pos, crossed = u.scope, u.pos, None
    while s is not None:
        out.append((s, pos, crossed))
        if s.kind in ("lambda", "comptime") and crossed is None:
            crossed = s.kind
        pos, s = s.ppos, s.parent
    return out


def relation(b, u):
    """how binding b (of any name) lies relative to use u; 'visible' = visible by the statement's rules"""
    if b.kind == "global":
        return "global"
    if b.kind == "imported_global":
        return "global_of_imported_file"
    if b.scope.fn != u.fn:
        return "other_function"
    chain = use_chain(u)
    for s, pos, crossed in chain:
        if s is b.scope:
            if b.kind == "local":
                when = "earlier" if b.pos < pos else ("own_initialiser" if b.pos == pos else "later")
            else:
                when = "earlier"
            if crossed is None:
                return {"earlier": "visible", "own_initialiser": "own_initialiser", "later": "later_in_enclosing_block"}[when]
            return f"across_{crossed}_boundary" + ("" if when == "earlier" else "_and_later")
    anc = {}
    s, pos = b.scope.parent, b.scope.ppos
    while s is not None:
        anc[s.sid] = pos
        pos, s = s.ppos, s.parent
    for s, pos, crossed in chain:
        if s.sid in anc:
            ib = anc[s.sid]
            if ib < pos:
                base = {"swarg": "ended_switch_arm", "local": "ended_block", "param": "ended_lambda", "cparam": "ended_lambda"}[b.kind]
            elif ib > pos:
                base = "later_nested"
            else:
                base = "sibling_branch_of_same_statement"
            return base + (f"+across_{crossed}_boundary" if crossed else "")
    return "other_function"


def ghosts(u, model_bindings):
    """relation classes of the same-named bindings of the same function that are NOT visible at the use (ended, later, across a boundary, ...)"""
    items = set()
    for b in model_bindings:
        if b.name != u.name or b.kind == "global":
            continue
        if b.kind == "imported_global":
            items.add("imported_global:global_of_imported_file")
            continue
        r = relation(b, u)
        if r not in ("other_function", "visible"):
            items.add(f"{b.kind}:{r}")
    return sorted(items)


# --------------------------------------------------------------------------- the oracle: values

def bit_of(sel, depth):
    return (sel >> depth) & 1 == 1


class Interp:
    def __init__(self, prog, sel, zeroed, strict=True):
        self.prog, self.sel, self.zeroed, self.strict = prog, sel, zeroed, strict
        self.env = {}
        self.events = {}

    def run(self):
        for it in self.prog.items:
            if isinstance(it, Global):
                self.env[it.binding.bid] = it.value
            if isinstance(it, Import):
                for name, v in it.values.items():
                    self.env[it.bindings[name].bid] = v
        self.block(self.prog.main.body)
        return self

    def block(self, b):
        for st in b.stmts:
            if isinstance(st, Def):
                self.env[st.binding.bid] = self.expr(st.init)
            elif isinstance(st, ExprS):
                self.expr(st.e)
            elif isinstance(st, While):
                self.block(st.body)
            elif isinstance(st, Assign):
                t = st.target
                if t.uid in self.zeroed or t.res == "undef":
                    self.expr(st.rhs)
                elif assignable(t):
                    self.env[t.res.bid] = self.expr(st.rhs)
                else:
                    self.expr(t)
                    self.expr(st.rhs)
        return self.expr(b.tail) if b.tail is not None else 0

    def truth(self, n):
        return n.const if n.depth is None else bit_of(self.sel, n.depth)

    def expr(self, e):
        if isinstance(e, Lit):
            return e.v
        if isinstance(e, Foreign):
            self.events[e.oid] = self.prog.imp.values[e.name]
            return self.events[e.oid]
        if isinstance(e, TUse):
            if e.uid in self.zeroed or e.res == "undef":
                v = 0
            else:
                v = probe_cast(concrete(e)) if e.form == "cast" else probe_sq(concrete(e))
            self.events[e.uid] = v
            return v
        if isinstance(e, Use):
            if e.uid in self.zeroed or e.res == "undef":
                base, k = 0, e.k
            elif e.res == "builtin":
                base, k = BUILTIN_VALUE, 0
            else:
                base, k = (self.env[e.res.bid] if self.strict else self.env.get(e.res.bid, -7777)), e.k
            if not e.ct:
                self.events[e.uid] = base
            return base + k
        if isinstance(e, Block):
            return self.block(e)
        if isinstance(e, If):
            return self.block(e.then if self.truth(e) else e.els)
        if isinstance(e, Switch):
            p = self.expr(e.payload)
            variant = "X" if self.truth(e) else "Y"
            for v, body, binding in e.arms:
                if v == variant:
                    self.env[binding.bid] = p
                    return self.block(body)
            raise AssertionError("no arm")
        if isinstance(e, Comptime):
            v = self.expr(e.body)
            self.events[e.oid] = v
            return v
        if isinstance(e, Call):
            vals = [self.expr(a) for a in e.args]
            for (name, _), v in zip(e.lam.params, vals):
                self.env[e.lam.pbind[name].bid] = v
            v = self.block(e.lam.body)
            if e.lam.tx is not None:
                v = probe_call(concrete(e.lam.tx, self.zeroed), concrete(e.lam.tret, self.zeroed) if e.lam.tret is not None else None)
            self.events[e.oid] = v
            return v
        raise AssertionError(e)


# --------------------------------------------------------------------------- rendering

class Writer:
    def __init__(self, first_line):
        self.lines = [""]
        self.first = first_line
        self.ind = 0

    def w(self, s):
        self.lines[-1] += s

    def nl(self):
        self.lines.append("    " * self.ind)

    def pos(self):
        return self.first + len(self.lines) - 1, len(self.lines[-1]) + 1

    def text(self):
        return "\n".join(self.lines) + "\n"


class Render:
    def __init__(self, prog, zeroed, record):
        self.prog, self.zeroed, self.record = prog, zeroed, record
        head = R.PRELUDE + HELPERS
        self.head = head
        self.wr = Writer(head.count("\n") + 1)

    def mark(self, u):
        if self.record:
            u.line, u.col = self.wr.pos()

    def use(self, u):
        w = self.wr
        if u.sort == "type":
            probe = f"vr_opaque_i64(0 - {-PROBE})"
            if u.uid in self.zeroed:
                w.w(f"pr({u.uid}, 0)")
            elif u.form == "cast":
                w.w(f"pr({u.uid}, i64.(")
                self.mark(u)
                w.w(f"{u.name}.({probe})))")
            else:
                w.w(f"{{ t{u.uid} : ")
                self.mark(u)
                w.w(f"{u.name} = {concrete(u)}.({probe}); pr({u.uid}, i64.(t{u.uid} * t{u.uid})) }}")
            return
        if u.uid in self.zeroed:
            w.w("i64.(0)" if u.ct else f"pr({u.uid}, 0)")
        elif u.res == "builtin":
            t = f"t{u.uid}"
            if u.name == "nil":
                w.w(f"{{ {t} : ?i64 = ")
                self.mark(u)
                inner = f"if {t} == nil {{ {BUILTIN_VALUE} }} else {{ {BUILTIN_VALUE - 1} }}"
                w.w(f"nil; {inner} }}" if u.ct else f"nil; pr({u.uid}, {inner}) }}")
            else:
                w.w(f"{{ {t} : ")
                self.mark(u)
                w.w(f"{u.name} = {BUILTIN_VALUE}; " + (f"i64.({t}) }}" if u.ct else f"pr({u.uid}, i64.({t})) }}"))
            return
        else:
            w.w("i64.(" if u.ct else f"pr({u.uid}, i64.(")
            self.mark(u)
            w.w(u.name + (")" if u.ct else "))"))
        if u.k:
            w.w(f" + {u.k}")

    def cond(self, n):
        if n.depth is None:
            return "1 == 1" if n.const else "1 == 2"
        return f"bit({1 << n.depth})"

    def expr(self, e):
        w = self.wr
        if isinstance(e, Lit):
            w.w(str(e.v))
        elif isinstance(e, Foreign):
            w.w(f"pr({e.oid}, o.{e.name})")
        elif isinstance(e, Use):
            self.use(e)
        elif isinstance(e, Block):
            self.block(e)
        elif isinstance(e, If):
            w.w(f"if {self.cond(e)} ")
            self.block(e.then)
            w.w(" else ")
            self.block(e.els)
        elif isinstance(e, Switch):
            w.w(f"switch {e.arg} in mk({self.cond(e)}, ")
            self.expr(e.payload)
            w.w(") {")
            w.ind += 1
            for v, body, _ in e.arms:
                w.nl()
                w.w(f".{v} => ")
                self.block(body)
                w.w(",")
            w.ind -= 1
            w.nl()
            w.w("}")
        elif isinstance(e, Comptime):
            w.w(f"pr({e.oid}, comptime ")
            self.expr(e.body)
            w.w(")")
        elif isinstance(e, Call):
            lam = e.lam
            squared = lam.tx is not None and lam.tret is not None
            w.w(f"{{ r{e.oid} := {lam.name}(" if squared else f"pr({e.oid}, {lam.name}(")
            first = True
            for _, ty in lam.tparams:
                w.w(("" if first else ", ") + ty)
                first = False
            for a in e.args:
                if not first:
                    w.w(", ")
                first = False
                self.expr(a)
            if lam.tx is not None:
                c1 = concrete(lam.tx, self.zeroed)      # `u16` may be shadowed between the lambda and its call: the built-in is reached through a global helper
                w.w(("" if first else ", ") + (f"mk_u16(vr_opaque_i64(0 - {-PROBE}))" if c1 in TBUILTIN else f"{c1}.(vr_opaque_i64(0 - {-PROBE}))"))
            w.w(f"); pr({e.oid}, i64.(r{e.oid} * r{e.oid})) }}" if squared else "))")
        else:
            raise AssertionError(e)

    def block(self, b, extra_last=None):
        w = self.wr
        w.w("{")
        w.ind += 1
        for i, st in enumerate(b.stmts):
            w.nl()
            # a block-like statement without `;` at the end of a block would be the block's value
            self.stmt(st, b.tail is None and extra_last is None and i == len(b.stmts) - 1)
        if extra_last:
            w.nl()
            w.w(extra_last)
        if b.tail is not None:
            w.nl()
            self.expr(b.tail)
        w.ind -= 1
        w.nl()
        w.w("}")

    def stmt(self, st, force_semi=False):
        w = self.wr
        if isinstance(st, Def):
            w.w(f"{st.name} {st.form} ")
            self.expr(st.init)
            w.w(";")
        elif isinstance(st, ExprS):
            self.expr(st.e)
            if force_semi or not w.lines[-1].endswith("}"):
                w.w(";")
        elif isinstance(st, LamDef):
            self.lambda_(st.lam)
            w.w(";")
        elif isinstance(st, TDef):
            w.w(f"{st.name} :: {st.ty};")
        elif isinstance(st, Assign):
            t = st.target
            if t.uid in self.zeroed:
                pass
            elif t.res == "undef" or assignable(t):
                self.mark(t)
                w.w(f"{t.name} = ")
            else:
                self.use(t)
                w.w(";")
                w.nl()
            self.expr(st.rhs)
            w.w(";")
        elif isinstance(st, While):
            w.w(f"w{st.wid} := 0;")
            w.nl()
            w.w(f"while w{st.wid} < 1 ")
            self.block(st.body, extra_last=f"w{st.wid} = w{st.wid} + 1;")
        else:
            raise AssertionError(st)

    def lambda_(self, lam):
        ps = ", ".join(("comptime " if c else "") + f"{n}: i64" for n, c in lam.params)
        if lam.name == "main":
            self.wr.w("main :: () -> i32 ")
            self.block(lam.body, extra_last="0")
            return
        w = self.wr
        ps = ", ".join([f"comptime {n}: type" for n, _ in lam.tparams] + ([ps] if ps else []))
        if lam.tx is None:
            w.w(f"{lam.name} :: ({ps}) -> i64 ")
            self.block(lam.body)
            return
        w.w(f"{lam.name} :: ({ps}{', ' if ps else ''}{lam.xname}: ")
        self.header_use(lam.tx)
        w.w(") -> ")
        if lam.tret is None:
            w.w("i64 ")
            self.block(lam.body, extra_last=f"i64.({lam.xname} * {lam.xname})")
        else:
            self.header_use(lam.tret)
            w.w(" ")
            self.block(lam.body, extra_last=f"{lam.xname} * {lam.xname}")

    def header_use(self, u):
        if u.uid in self.zeroed:
            self.wr.w("i64")
        else:
            self.mark(u)
            self.wr.w(u.name)

    def program(self):
        w = self.wr
        for i, it in enumerate(self.prog.items):
            if i:
                w.nl()
            if isinstance(it, Global):
                w.w(f"{it.name} : i64 : {it.value};")
            elif isinstance(it, TGlobal):
                w.w(f"{it.name} :: {it.ty};")
            elif isinstance(it, Import):
                w.w('o :: #import("o.capy");')
            else:
                self.lambda_(it)
        return self.head + w.text()


# --------------------------------------------------------------------------- case = pure data (so that replay needs no generator)

def build_case(seed, idx, budget, mutant=None):
    rng = C.Rng(seed, 50000 + idx)
    prog = gen_program(rng, budget)
    model = Model(mutant).resolve(prog)
    # positive programs (every use has a visible binding: one compilation, linked and run), negative programs (undefined uses stay: only the set of
    # diagnostics is judged), and mixed ones (both passes)
    mode = rng.weighted([("positive", 11), ("negative", 6), ("mixed", 3)])
    if mode == "positive":
        for u in model.uses:
            if u.res == "undef":
                u.name = rng.pick(u.visible) if u.visible else rng.pick(TBUILTIN if u.sort == "type" else BUILTIN)
        for n in walk_all(prog):
            if isinstance(n, LamDef) and n.lam.tret is not None:
                n.lam.tret.name = n.lam.tx.name          # one name for parameter type and return type
        model = Model(mutant).resolve(prog)
    text1 = Render(prog, set(), True).program()
    pred_undef = {u.uid for u in model.uses if u.res == "undef"}
    nsel = 1 << prog.nbits
    sels = list(range(nsel))
    if nsel > 2:
        sels = sorted([0, nsel - 1] + rng.sample(list(range(1, nsel - 1)), 1))      # three runs per program at most (process start-ups dominate the cost)
    uses = {}
    for u in model.uses:
        uses[str(u.uid)] = {"name": u.name, "line": u.line, "col": u.col, "ctx": u.ctx,
                            "pred": u.res if isinstance(u.res, str) else u.res.kind, "stack": list(u.stack), "ghosts": ghosts(u, model.bindings), "silent": bool(u.ct or (u.is_target and assignable(u))),
                            "bid": None if isinstance(u.res, str) else u.res.bid,
                            "rel": {str(b.bid): relation(b, u) for b in model.bindings if b.name == u.name}}
        if u.sort == "type":
            tc = {}
            for b in model.bindings:
                if b.name == u.name and b.ty is not None and relation(b, u) != "other_function":
                    tc.setdefault(b.ty, []).append(f"{b.kind}:{relation(b, u)}")
            if u.name in TBUILTIN:
                tc.setdefault(u.name, []).append("builtin")
            uses[str(u.uid)].update({"sort": "type", "form": u.form, "want_ty": concrete(u), "tcands": tc})
    bindings = {str(b.bid): {"kind": b.kind, "name": b.name} for b in model.bindings}
    obs, tcalls = {}, {}
    for n in walk_all(prog):
        if isinstance(n, Comptime):
            obs[str(n.oid)] = "comptime"
        elif isinstance(n, Call) and n.lam.tx is not None:
            obs[str(n.oid)] = "typed_call"
            tcalls[str(n.oid)] = [str(x.uid) for x in (n.lam.tx, n.lam.tret) if x is not None]
        elif isinstance(n, Call):
            obs[str(n.oid)] = "call"
        elif isinstance(n, Foreign):
            obs[str(n.oid)] = "imported_global"
    extra = {}
    if prog.imp is not None:
        extra["o.capy"] = "".join(f"{k} : i64 : {v};\n" for k, v in prog.imp.values.items())
    return {"seed": seed, "idx": idx, "mode": mode, "text1": text1, "pred_undef": sorted(pred_undef), "sels": sels, "uses": uses, "bindings": bindings,
            "obs": obs, "tcalls": tcalls, "extra_files": extra, "_prog": prog, "_mutant": mutant}


def walk_all(prog):
    stack = [it.body for it in prog.items if isinstance(it, Lambda)]
    while stack:
        n = stack.pop()
        yield n
        stack.extend(children(n))


def expectations(case, zeroed):
    """pass-2 text and, per selector, the expected events {id: value} and the value -> binding map"""
    prog = case["_prog"]
    text2 = Render(prog, zeroed, False).program()
    exp = {}
    for sel in case["sels"]:
        it = Interp(prog, sel, zeroed, strict=not case.get("_mutant")).run()
        vals = {}
        for bid, v in it.env.items():
            vals.setdefault(str(v), []).append(bid)
        exp[str(sel)] = {"events": {str(k): v for k, v in it.events.items()}, "vals": vals}
    return text2, exp


# --------------------------------------------------------------------------- execution

EXTERNAL_SIGNALS = (2, 9, 15)
DIAG = re.compile(r"^error(?:\[[^\]]*\])?: (.*)\n\s*--> at main\.capy:(\d+):(\d+)", re.M)
UNDEF = re.compile(r"^undefined reference to `([^`]*)`")


def compile_retry(d, files):
    """the CLI binary is briefly absent while another check's build_cli() relinks it: wait instead of aborting the whole run"""
    for attempt in range(40):
        try:
            c = R.compile_capy(d, files)
        except C.Inconclusive:
            if attempt == 39:
                raise
            time.sleep(1.5)
            continue
        if c.sig in EXTERNAL_SIGNALS and not c.timed_out and attempt < 3:
            continue
        return c


def brief(c):
    """the CLI's output without the `split_aggregate - ..` debug lines the compiler prints for enum-returning functions"""
    return "\n".join(l for l in c.brief().splitlines() if not l.startswith("split_aggregate"))[:600]


def stable_psig(c):
    """c.panic_sig() keeps the operands of a Cranelift verifier message (hex constants differ from program to program): keep the opcode only"""
    s = c.panic_sig()
    if s.startswith("internal|Error defining function"):
        m = re.search(r"- inst\d+ \(([^\n]*)", c.out + "\n" + c.err)
        ops = re.findall(r"[a-z_]+(?:\.[a-z]+\d+)?", re.sub(r"\b(?:v|ss|block|fn|inst)\d+\b", " ", m.group(1))) if m else []
        why = "uses value from non-dominating inst" if "non-dominating" in c.out + c.err else "other"
        return f"internal|Error defining function|{ops[0] if ops else '?'}|{why}"
    return s


def diags(c):
    return [(m.group(1), int(m.group(2)), int(m.group(3))) for m in DIAG.finditer(c.out)]


def observe(case, d):
    """runs both passes; -> observation record (pure data)"""
    o = {"p1": None, "p2": None, "runs": {}, "text2": None, "exp": None, "zeroed": None}
    c1 = compile_retry(os.path.join(d, "p1"), dict(case["extra_files"], **{"main.capy": case["text1"]}))
    o["p1"] = {"accepted": c1.accepted, "rejected": c1.rejected, "internal": c1.internal_error, "psig": stable_psig(c1) if c1.internal_error else None,
               "watchdog": bool(c1.timed_out or c1.cpu_exceeded or c1.sig in EXTERNAL_SIGNALS), "diags": diags(c1), "brief": brief(c1)}
    if o["p1"]["watchdog"]:
        return o
    pos_to_uid = {(u["line"], u["col"]): int(k) for k, u in case["uses"].items()}
    reported = set()
    for msg, ln, col in o["p1"]["diags"]:
        if UNDEF.match(msg) and (ln, col) in pos_to_uid:
            reported.add(pos_to_uid[(ln, col)])
    zeroed = set(case["pred_undef"]) | reported
    o["zeroed"] = sorted(zeroed)
    if case["mode"] == "negative" and case["pred_undef"]:
        return o
    text2, exp = expectations(case, zeroed)
    o["text2"], o["exp"] = text2, exp
    if not zeroed and c1.internal_error:
        return o                 # same text: pass 2 would only repeat the internal error
    if not zeroed:
        c2, d2 = c1, os.path.join(d, "p1")
    else:
        d2 = os.path.join(d, "p2")
        c2 = compile_retry(d2, dict(case["extra_files"], **{"main.capy": text2}))
    o["p2"] = {"accepted": c2.accepted, "rejected": c2.rejected, "internal": c2.internal_error, "psig": stable_psig(c2) if c2.internal_error else None,
               "watchdog": bool(c2.timed_out or c2.cpu_exceeded or c2.sig in EXTERNAL_SIGNALS), "diags": diags(c2), "brief": brief(c2)}
    if c2.accepted:
        exe, err = R.link(d2, c2.obj)
        if exe is None:
            o["link_err"] = err[-300:]
            return o
        for sel in case["sels"]:
            r = R.run_exe(exe, {"VR_SEL": sel})
            o["runs"][str(sel)] = {"rc": r.rc, "sig": r.sig, "timed_out": bool(r.timed_out), "out": r.out}
    return o


def run_case(job):
    work, case = job
    d = os.path.join(work, f"c{case['idx']}")
    try:
        o = observe(case, d)
    finally:
        shutil.rmtree(d, ignore_errors=True)
    return case, o


# --------------------------------------------------------------------------- verdicts

def norm_msg(m):
    m = re.sub(r"`[^`]*`", "`_`", m)
    return re.sub(r"\d+", "N", m)[:70]


def judge(case, o):
    """-> (violations, inconclusive strings, per-use verdict tuples, counters)"""
    viol, inc, tuples, cnt = [], [], [], {}
    uses = case["uses"]
    name = f"program seed={case['seed']} idx={case['idx']}"

    def bump(k, n=1):
        cnt[k] = cnt.get(k, 0) + n

    def scenario(u, verdict):
        for g in u["ghosts"]:
            cls = g.split(":", 1)[1].split("+")[0]
            bump(f"use with a same-named binding [{cls}] -> {verdict}")
        if not u["ghosts"]:
            bump(f"use without invisible same-named bindings -> {verdict}")

    def type_violation(u, ty, have, want, sel, k, what):
        cands = u["tcands"].get(ty) if ty else None
        desc = cands[0] if cands else (f"type_{ty}" if ty else "unknown_value")
        viol.append({"key": "wrong_type_binding", "sig": f"wrong_type_binding|{u['ctx']}|expected={u['pred']}|observed={desc}",
                     "what": f"{name} sel={sel}: `{u['name']}` at {u['line']}:{u['col']} ({u['ctx']}) must denote the {u['pred']} binding = {u['want_ty']} "
                             f"(expected output {want}), but {what} prints {have}: that is {ty or 'no type of the universe'}"
                             + (f", the type of: {cands}" if cands else ""), "witness": wit({"pass": 2, "sel": sel, "use": k})})
        bump("wrong_type_binding")

    def wit(extra=None):
        w = {"files": dict(case["extra_files"], **{"main.capy": case["text1"]}), "seed": case["seed"], "idx": case["idx"], "mode": case["mode"], "pred_undef": case["pred_undef"], "sels": case["sels"],
             "uses": case["uses"], "bindings": case["bindings"], "obs": case["obs"], "tcalls": case.get("tcalls", {})}
        if o.get("text2"):
            w["files"]["pass2.capy"] = o["text2"]
            w["exp"] = o["exp"]
            w["zeroed"] = o["zeroed"]
        if extra:
            w.update(extra)
        return w

    p1 = o["p1"]
    if p1 is None or p1["watchdog"]:
        return viol, [f"{name}: pass 1 watchdog / killed from outside"], tuples, cnt
    if p1["internal"]:
        viol.append({"key": "internal_error", "sig": "internal_error|" + p1["psig"], "what": f"{name}: internal compiler error in pass 1: {p1['brief'][:300]}",
                     "witness": wit({"pass": 1})})
    elif not (p1["accepted"] or p1["rejected"]):
        return viol, [f"{name}: pass 1 neither accepted nor rejected: {p1['brief'][:200]}"], tuples, cnt
    # ---- pass 1: set of undefined-reference diagnostics == predicted set
    pass1_ok = not p1["internal"]
    if pass1_ok:
        pos_to_uid = {(u["line"], u["col"]): k for k, u in uses.items()}
        reported = {}
        stray = []
        for msg, ln, col in p1["diags"]:
            m = UNDEF.match(msg)
            if not m:
                continue
            k = pos_to_uid.get((ln, col))
            if k is None or uses[k]["name"] != m.group(1):
                stray.append((msg, ln, col))
            else:
                reported[k] = True
        for msg, ln, col in stray:
            inc.append(f"{name}: undefined-reference diagnostic at {ln}:{col} ({msg}) is not at a generated use site")
        pred = {str(x) for x in case["pred_undef"]}
        for k, u in uses.items():
            if k in pred and k not in reported:
                cands = sorted({r for r in u["rel"].values() if r != "other_function"}) or ["other_function_only" if u["rel"] else "no_binding_anywhere"]
                primary = min(cands, key=lambda r: (next((i for i, p in enumerate(GHOST_ORDER) if r.startswith(p)), len(GHOST_ORDER)), r))
                viol.append({"key": "missed_undefined", "sig": f"missed_undefined|{u['ctx']}|nearest_candidate={primary}",
                             "what": f"{name}: `{u['name']}` at {u['line']}:{u['col']} ({u['ctx']}) has no visible binding but no `undefined reference` is reported; "
                                     f"same-named bindings of the function lie: {cands}", "witness": wit({"pass": 1, "use": k})})
                bump("missed_undefined")
            elif k not in pred and k in reported:
                viol.append({"key": "spurious_undefined", "sig": f"spurious_undefined|{u['ctx']}|expected={u['pred']}",
                             "what": f"{name}: `{u['name']}` at {u['line']}:{u['col']} ({u['ctx']}) must resolve to a {u['pred']} binding but is reported as undefined",
                             "witness": wit({"pass": 1, "use": k})})
                bump("spurious_undefined")
            else:
                bump("pass1_positions_agreeing")
                if k in pred:
                    bump("undefined_reported_as_predicted")
                    tuples.append((u["ctx"], tuple(u["stack"]), tuple(u["ghosts"]), "undef"))
                    scenario(u, "reported undefined as predicted")
    # ---- pass 2
    p2 = o["p2"]
    if p2 is None and case["mode"] == "negative" and case["pred_undef"]:
        bump("negative_programs_judged")
        return viol, inc, tuples, cnt
    if p2 is None:
        return viol, inc + ([] if viol else [f"{name}: no pass 2"]), tuples, cnt
    bump("positive_programs_judged" if not case["pred_undef"] else "mixed_programs_judged")
    if p2["watchdog"]:
        return viol, inc + [f"{name}: pass 2 watchdog / killed from outside"], tuples, cnt
    if p2["internal"]:
        viol.append({"key": "internal_error", "sig": "internal_error|" + p2["psig"],
                     "what": f"{name}: internal compiler error on the program whose undefined uses were replaced by 0: {p2['brief'][:300]}", "witness": wit({"pass": 2})})
        return viol, inc, tuples, cnt
    if not p2["accepted"]:
        use_lines = {}
        for k, u in uses.items():
            use_lines.setdefault(u["line"], []).append(k)
        hit = [(msg, ln, col) for msg, ln, col in p2["diags"] if ln in use_lines]
        if p2["rejected"] and hit:
            msg, ln, col = hit[0]
            ks = use_lines[ln]
            near = min(ks, key=lambda k: abs(uses[k]["col"] - col))
            u = uses[near]
            viol.append({"key": "rejected_valid", "sig": f"rejected_valid|{u['ctx']}|expected={u['pred']}|{norm_msg(msg)}",
                         "what": f"{name}: every remaining use has a visible binding, yet the program is rejected at {ln}:{col}: {msg} (nearest use `{u['name']}` "
                                 f"at col {u['col']}, must resolve to {u['pred']})", "witness": wit({"pass": 2, "use": near})})
            bump("rejected_valid")
        else:
            inc.append(f"{name}: pass 2 rejected away from any use site: {p2['brief'][:300]}")
        return viol, inc, tuples, cnt
    if o.get("link_err"):
        return viol, inc + [f"{name}: link failed: {o['link_err']}"], tuples, cnt
    zeroed = {str(z) for z in o["zeroed"]}
    judged_any = False
    seen_use = set()
    for sel, r in sorted(o["runs"].items()):
        exp = o["exp"][sel]
        if r["timed_out"]:
            inc.append(f"{name}: run sel={sel} watchdog")
            continue
        got = {}
        dup = False
        for tag, ident, val in R.parse_log(r["out"]):
            if tag == "I":
                if str(ident) in got and got[str(ident)] != int(val):
                    dup = True
                got[str(ident)] = int(val)
        bad_here = False
        for k, want in exp["events"].items():
            if k not in got:
                continue
            have = got[k]
            if case["obs"].get(k) == "typed_call":
                hus = [h for h in case["tcalls"][k] if h not in zeroed]
                if have == want:
                    bump("typed_lambda_calls_agreeing")
                    for h in hus:
                        if h not in seen_use:
                            seen_use.add(h)
                            tuples.append((uses[h]["ctx"], tuple(uses[h]["stack"]), tuple(uses[h]["ghosts"]), uses[h]["pred"]))
                            scenario(uses[h], "printed the value of the predicted binding")
                            bump(f"resolved kind {uses[h]['pred']} ({uses[h]['ctx']})")
                elif hus:
                    bad_here = True
                    u = uses[hus[0]]
                    both = len(case["tcalls"][k]) == 2
                    found = [(a, b) for a in ALL_TYPES for b in (ALL_TYPES if both else [None]) if probe_call(a, b, u["want_ty"]) == have]
                    found.sort(key=lambda ab: (ab[0] != ab[1], ab[0] not in u["tcands"]))      # several wide types give the same number: name one a same-named binding has
                    type_violation(u, found[0][0] if found else None, have, want, sel, hus[0],
                                   f"the call of the lambda whose header names `{u['name']}` (parameter type{' and return type' if both else ''})"
                                   + (f" behaves like ({found[0][0]}) -> {found[0][1] or 'i64'}" if found else ""))
                continue
            if k in case["obs"]:
                if have != want:
                    bad_here = True
                    kind = case["obs"][k]
                    owners = exp["vals"].get(str(have))
                    viol.append({"key": "wrong_value", "sig": f"wrong_value|{kind}_result",
                                 "what": f"{name} sel={sel}: the {kind} observed as event {k} yields {have}, the scope model yields {want}"
                                         + (f" (that is the value of binding {owners})" if owners else ""), "witness": wit({"pass": 2, "sel": sel, "event": k})})
                    bump("wrong_value")
                else:
                    bump("comptime_and_call_results_agreeing")
                continue
            u = uses[k]
            if k in zeroed:
                continue
            if have == want:
                bump("use_values_agreeing")
                if k not in seen_use:
                    seen_use.add(k)
                    tuples.append((u["ctx"], tuple(u["stack"]), tuple(u["ghosts"]), u["pred"]))
                    scenario(u, "printed the value of the predicted binding")
                    bump(f"resolved kind {u['pred']} ({u['ctx']})")
                continue
            bad_here = True
            if u.get("sort") == "type":
                tys = [t for t in ALL_TYPES if (probe_cast(t) if u["form"] == "cast" else probe_sq(t, u["want_ty"])) == have]
                ty = next((t for t in tys if t in u["tcands"]), tys[0] if tys else None)
                type_violation(u, ty, have, want, sel, k, "the " + ("cast" if u["form"] == "cast" else "annotated local"))
                continue
            owners = exp["vals"].get(str(have), [])
            if owners:
                b = case["bindings"][str(owners[0])]
                rel = u["rel"].get(str(owners[0]), "other_name")
                obs_desc = f"{b['kind']}:{rel}"
                obs_txt = f"the value of the {b['kind']} binding `{b['name']}` ({rel})"
            elif have == BUILTIN_VALUE:
                obs_desc, obs_txt = "builtin", "the built-in"
            else:
                obs_desc, obs_txt = "unknown_value", "no binding's value"
            viol.append({"key": "wrong_binding", "sig": f"wrong_binding|{u['ctx']}|expected={u['pred']}|observed={obs_desc}",
                         "what": f"{name} sel={sel}: `{u['name']}` at {u['line']}:{u['col']} ({u['ctx']}) must see the {u['pred']} binding (value {want}) but prints {have}, {obs_txt}",
                         "witness": wit({"pass": 2, "sel": sel, "use": k})})
            bump("wrong_binding")
        missing = [k for k in exp["events"] if k not in got]
        extra = [k for k in got if k not in exp["events"]]
        if (missing or extra or dup or r["rc"] != 0) and not bad_here:
            inc.append(f"{name}: run sel={sel}: exit {r['rc']} signal {r['sig']}, {len(missing)} expected events missing, {len(extra)} unexpected events"
                       f"{', an event printed twice with different values' if dup else ''}")
        else:
            judged_any = True
            bump("runs")
    if not judged_any and not viol:
        inc.append(f"{name}: no run reached a verdict")
    return viol, inc, tuples, cnt


# --------------------------------------------------------------------------- driver

def run(tier, seed, mutant=None, n_override=None):
    t0 = time.time()
    C.build_cli()
    C.build_rt()
    work = C.fresh_dir("C05")
    n = n_override or (320 if tier == "quick" else 4000)
    viol, inconc, sigs, samples = [], [], set(), []
    cnt = {"programs": 0, "use_sites": 0, "predicted_undefined": 0}
    evals = 0
    seen_sig = {}
    chunk = 400
    for lo in range(0, n, chunk):
        cases = []
        for idx in range(lo, min(n, lo + chunk)):
            rng = C.Rng(seed, 40000 + idx)
            cases.append(build_case(seed, idx, rng.range(30, 90), mutant))
        results = C.pmap(run_case, [(work, c) for c in cases])
        for case, o in results:
            cnt["programs"] += 1
            cnt["use_sites"] += len(case["uses"])
            cnt["predicted_undefined"] += len(case["pred_undef"])
            v, inc, tuples, c = judge(case, o)
            for k, x in c.items():
                cnt[k] = cnt.get(k, 0) + x
            inconc.extend(inc[:1])
            if not inc or v:
                evals += 1
            for t in tuples:
                sigs.add(t)
            for x in v:
                s = x["key"] + "|" + x["sig"]
                seen_sig[s] = seen_sig.get(s, 0) + 1
                if seen_sig[s] == 1 and len(viol) < VIOLATION_CAP:
                    viol.append(x)
            if not v and not inc and len(samples) < 3 and case["mode"] == "mixed" and len(case["sels"]) > 1:
                r0 = o["runs"].get("0", {})
                samples.append({"program": case["text1"][len(R.PRELUDE):][:1800], "predicted_and_reported_undefined": [
                    f"{case['uses'][str(k)]['name']}@{case['uses'][str(k)]['line']}:{case['uses'][str(k)]['col']}" for k in case["pred_undef"]][:12],
                    "output_sel0": r0.get("out", "")[:300]})
    dropped = sum(seen_sig.values()) - len(viol)
    notes = []
    if dropped > 0:
        notes.append(f"{dropped} further violations share a signature with a reported one; per signature: "
                     + "; ".join(f"{k} x{v}" for k, v in sorted(seen_sig.items(), key=lambda kv: -kv[1])[:12]))
    rep = {"evaluations": evals, "distinct_nontrivial": len(sigs), "violations": viol, "samples": samples, "counters": cnt, "notes": notes,
           "exhaustive": False, "dropped_violations": max(dropped, 0)}
    return C.finish("C05", tier, seed, t0, "exploration", rep, ASSUME, RULE, min_evals=min(160, n // 2), inconclusive=inconc)


def replay(path):
    w = json.load(open(os.path.join(path, "witness.json")))
    wit = w.get("witness") or {}
    print(json.dumps({k: v for k, v in w.items() if k != "witness"}, indent=1)[:1500])
    if "seed" not in wit or "idx" not in wit:
        return run("quick", 0)
    C.build_cli()
    C.build_rt()
    work = C.fresh_dir("C05", "replay")
    # the recorded program is re-judged with the recorded expectations (no generator involved)
    case = {"seed": wit["seed"], "idx": wit["idx"], "text1": wit["files"]["main.capy"], "mode": wit.get("mode", "mixed"), "pred_undef": wit["pred_undef"],
            "sels": wit.get("sels") or list(range(wit.get("nsel", 1))),
            "uses": wit["uses"], "bindings": wit["bindings"], "obs": wit["obs"], "tcalls": wit.get("tcalls", {}),
            "extra_files": {k: v for k, v in wit["files"].items() if k not in ("main.capy", "pass2.capy")}}
    regenerated = build_case(wit["seed"], wit["idx"], C.Rng(wit["seed"], 40000 + wit["idx"]).range(30, 90))
    if regenerated["text1"] == case["text1"]:
        case["_prog"] = regenerated["_prog"]
        _, o = run_case((work, case))
    else:
        print("note: the generator has changed since the witness was written; replaying the recorded texts with the recorded expectations")
        o = replay_recorded(case, wit, os.path.join(work, "r"))
    v, inc, _, _ = judge(case, o)
    shutil.rmtree(work, ignore_errors=True)
    if v:
        print(f"VIOLATION property=C05 replay={path}")
        for x in v[:5]:
            print(f"  {x['key']}: {x['what'][:400]}")
        return 1
    if inc:
        print(f"INCONCLUSIVE property=C05: {inc[0][:300]}")
        return 2
    print("the recorded violation does not reproduce on the current tree")
    return 0


def replay_recorded(case, wit, d):
    o = {"p1": None, "p2": None, "runs": {}, "text2": wit["files"].get("pass2.capy"), "exp": wit.get("exp"), "zeroed": wit.get("zeroed", case["pred_undef"])}
    c1 = compile_retry(os.path.join(d, "p1"), dict(case["extra_files"], **{"main.capy": case["text1"]}))
    o["p1"] = {"accepted": c1.accepted, "rejected": c1.rejected, "internal": c1.internal_error, "psig": stable_psig(c1) if c1.internal_error else None,
               "watchdog": bool(c1.timed_out or c1.cpu_exceeded), "diags": diags(c1), "brief": brief(c1)}
    if o["text2"] is None or o["exp"] is None:
        return o
    c2 = compile_retry(os.path.join(d, "p2"), dict(case["extra_files"], **{"main.capy": o["text2"]}))
    o["p2"] = {"accepted": c2.accepted, "rejected": c2.rejected, "internal": c2.internal_error, "psig": stable_psig(c2) if c2.internal_error else None,
               "watchdog": bool(c2.timed_out or c2.cpu_exceeded), "diags": diags(c2), "brief": brief(c2)}
    if c2.accepted:
        exe, err = R.link(os.path.join(d, "p2"), c2.obj)
        if exe is None:
            o["link_err"] = err[-300:]
            return o
        for sel in case["sels"]:
            r = R.run_exe(exe, {"VR_SEL": sel})
            o["runs"][str(sel)] = {"rc": r.rc, "sig": r.sig, "timed_out": bool(r.timed_out), "out": r.out}
    return o
