"""C24 — precedence and associativity (probe c24)."""
from ._probe_check import run_probe_check, replay_text

RULE = ("expression trees over 19 binary, 6 prefix and 6 postfix operators: all trees of depth <= 2 (exhaustive), all trees of depth 3 "
        "over operator triples (quick: one triple, stride 4; thorough: three triples, exhaustive), random trees of depth 3..5 printed "
        "minimally and with redundant parentheses/trivia, plus every binary/unary expression of the corpus printed back from its "
        "parsed tree; non-trivial = depth >= 2, distinct = distinct trees")
ASSUME = ["binary levels and left-associativity are taken from the statement; the prefix/postfix interplay (a prefix operand takes "
          "postfix operators except dereference, `^` also stops before a cast) is taken from the grammar's own comments"]


# the same print/parse/read-back oracle interpreted by Miri (parser sink + ast accessors over the syntax tree)
MIRI = {"quick": ["--random", "480", "--corpusfiles", "1"],
        "thorough": ["--random", "4800", "--corpusfiles", "2"], "shards": 16}


def run(tier, seed):
    extra = ["--stride2", "1", "--stride3", "1" if tier == "thorough" else "4"]
    return run_probe_check("C24", tier, seed, RULE, ASSUME, corpus=True, shards=16 if tier == "thorough" else 8, extra=extra,
                           min_evals=100000, miri=MIRI)


def replay(path):
    return replay_text("C24", path)
