"""C07 — a program is built if and only if no error was reported.

Three observations of one compilation: (a) `probe pipeline` (library level, track_unsafe_to_compile on):
error diagnostics E, the unsafe flag U, whether a type error names an expression X; (b) the real CLI: exit status,
object file, internal errors; (c) gcc linking the object.
Oracle: object built <=> no error reported; no error => not flagged unsafe and codegen + link succeed;
type error attributed to an expression => flagged unsafe; errors => no object.
"""
import json
import os
import time

from .. import common as C
from .. import capyrun as R
from .. import pipe as P

RULE = ("inputs: every corpus program (examples, test snippets; an empty `main` is added when missing) plus near-valid mutants of them (one identifier "
        "swap, `:=`->`::`, type change, literal change, deleted definition, dropped `mut`, undefined name, changed operator) and the pinned programs of "
        "other checks; each compiled by the probe pipeline and by the CLI; non-trivial = input that parses without syntax errors and reaches the type "
        "checker (valid, or rejected by a type/lowering error); distinct = distinct (mutation kind, outcome class, first diagnostic message shape) tuples")
ASSUME = ["the probe pipeline re-implements the glue of crates/capy/src/main.rs; a disagreement between its accept/reject verdict and the CLI's is a harness "
          "problem (inconclusive), never a violation",
          "linking uses --unresolved-symbols=ignore-all: snippets declare extern functions that exist nowhere"]


def shape(msg):
    import re
    if not msg:
        return "-"
    m = re.sub(r"`[^`]*`", "`_`", msg)
    return re.sub(r"\d+", "N", m)[:60]


def directed_cases(rng, tier):
    """near-valid programs aimed at the corners of the statement that corpus mutants rarely reach:
    (1) an error inside a function of an IMPORTED file (or the same file, as control) that is reached from a comptime block which has to be
        evaluated during type checking: the error must be reported, the program flagged unsafe, and the erroneous function must not be run
        (it prints a marker through libc puts when the compiler executes it);
    (2) compound assignments whose value type does not go with the operator (`i %= 2.5`, `i <<= 1.5`, `b += true`): an error, not a crash."""
    out = []
    errs = [("assign_immutable", "k :: 3;\n    k = 4;"), ("literal_too_big", "b : u8 = 300;"), ("type_mismatch", "q : i32 = 1;\n    r : bool = q;"),
            ("undefined_name", "z := not_defined_anywhere + 1;"), ("immutable_ref", "v : i64 = 1;\n    p := ^v;\n    p^ = 2;")]
    uses = [("array_len", "buf : [comptime {{ {call} }}]i32;"), ("const_local", "n :: comptime {{ {call} }};"), ("comptime_arg", "w := g(comptime {{ {call} }});")]
    k = 0
    for en, err in errs:
        for un, use in uses:
            for where in ("imported", "same_file"):
                if tier == "quick" and (k + len(en)) % 3 and where == "same_file":
                    k += 1
                    continue
                k += 1
                fn = f"puts :: (s: str) -> i32 extern;\nsize :: () -> usize {{\n    {err}\n    puts(\"CT-MARK-{k}\");\n    4\n}}\n"
                call = "util.size()" if where == "imported" else "size()"
                main = ("util :: #import(\"util.capy\");\n" if where == "imported" else fn) + "g :: (comptime c: usize) -> usize { c }\n" + \
                    "main :: () -> i32 {\n    " + use.format(call=call) + "\n    0\n}\n"
                files = {"main.capy": main}
                if where == "imported":
                    files["util.capy"] = fn
                out.append((files, f"directed:comptime_reaches_error:{where}:{un}:{en}"))
    for ty, val in (("i32", "7"), ("u8", "7"), ("i64", "7")):
        for op in ("%=", "<<=", ">>=", "&=", "|="):
            out.append(({"main.capy": f"main :: () -> i32 {{\n    t : {ty} = {val};\n    t {op} 2.5;\n    0\n}}\n"}, f"directed:compound_float:{op}:{ty}"))
    out.append(({"main.capy": "main :: () -> i32 {\n    t : bool = true;\n    t += true;\n    0\n}\n"}, "directed:compound_bool:+=:bool"))
    return out


def one(job):
    idx, text, kind, work = job
    d = os.path.join(work, f"c{idx}")
    os.makedirs(d, exist_ok=True)
    files_in = text if isinstance(text, dict) else {"main.capy": text}
    R.write_files(d, files_in)
    pr, rep = P.run_pipeline(d)
    c = R.compile_capy(d, files_in)
    linked = None
    if c.accepted:
        r = C.run_proc(["gcc", c.obj, C.RT_OBJ, "-o", os.path.join(d, "prog"), "-lm", "-Wl,--unresolved-symbols=ignore-all"], cwd=d, cpu_s=60, mem_gb=8)
        linked = (r.rc == 0, r.err[-300:])
    return idx, kind, text, pr, rep, c, linked


def run(tier, seed):
    t0 = time.time()
    C.build_cli()
    C.build_probe()
    C.build_rt()
    work = C.fresh_dir("C07")
    rng = C.Rng(seed, 7)
    base = P.programs_with_main(C.corpus_texts())
    n_base = 100 if tier == "quick" else len(base)
    n_mut = 180 if tier == "quick" else 12000
    jobs = []
    chosen = rng.sample(base, min(n_base, len(base)))
    for t in chosen:
        jobs.append((len(jobs), t, "corpus", work))
    for k in range(n_mut):
        t = rng.pick(base)
        m, kind = P.semantic_mutant(rng, t)
        jobs.append((len(jobs), m, kind, work))
    for files_d, kind_d in directed_cases(rng, tier):
        jobs.append((len(jobs), files_d, kind_d, work))
    kfdir = os.path.join(C.VERIF, "kf")
    for f in sorted(os.listdir(kfdir)):
        if f.endswith(".capy"):
            jobs.append((len(jobs), open(os.path.join(kfdir, f)).read(), "pinned:" + f, work))
    results = C.pmap(one, jobs)
    viol, inconc, samples, sigs = [], [], [], set()
    evals = 0
    cnt = {}
    counters = {"accepted": 0, "rejected": 0, "cli_internal_error": 0, "flag_checked": 0}

    def add_v(key, sig, what, wit):
        cnt[sig] = cnt.get(sig, 0) + 1
        if cnt[sig] <= 2:
            viol.append({"key": key, "sig": sig, "what": what, "witness": wit})

    for idx, kind, text, pr, rep, c, linked in results:
        files = text if isinstance(text, dict) else {"main.capy": text}
        if c.timed_out or pr.timed_out:
            inconc.append(f"case {idx} ({kind}): watchdog")
            continue
        evals += 1
        # (b) CLI: exactly one of accepted / rejected; internal errors are violations of C07's "without internal errors"
        if c.internal_error:
            counters["cli_internal_error"] += 1
            if "Finalizing" in c.out:
                # the front end finished without reporting an error, so this is C07's "code generation succeeds without internal errors"
                add_v("internal_error", "internal_error|" + c.panic_sig(), f"no error was reported but code generation ends in an internal error ({kind}): {c.brief()[:300]}", {"files": files})
            else:
                # a crash of the front end: the property cannot be evaluated on this input; these are C06's violations
                counters["front_end_crash_see_C06"] = counters.get("front_end_crash_see_C06", 0) + 1
            continue
        if not (c.accepted or c.rejected):
            add_v("neither", f"neither|rc{c.rc}", f"the CLI neither built an object nor reported an error (rc={c.rc}): {c.brief()[:300]}", {"files": files})
            continue
        counters["accepted" if c.accepted else "rejected"] += 1
        if kind.startswith("directed:"):
            counters["directed_cases"] = counters.get("directed_cases", 0) + 1
            # (the compound-assignment family only has to end without an internal error, which the general rules above judge:
            #  whether `i &= 2.5` is an error at all is not this property's subject)
            if c.accepted and kind.startswith("directed:comptime_reaches_error"):
                add_v("accepted_erroneous", "accepted_erroneous|" + ":".join(kind.split(":")[1:3]), f"a program with a seeded error ({kind}) is built without any error", {"files": files})
            # the marker as a line of its own is what puts() printed; inside a diagnostic's source snippet it is part of a longer line
            if any(l.strip().startswith("CT-MARK-") for l in c.out.splitlines()):
                add_v("erroneous_code_executed", "erroneous_code_executed|" + ":".join(kind.split(":")[2:4]),
                      f"a function that contains a reported error was executed at compile time ({kind}): its marker is in the compiler's output", {"files": files})
        if c.accepted and linked is not None and not linked[0]:
            add_v("link", "link|" + shape(linked[1]), f"the object of an accepted program does not link: {linked[1]}", {"files": files})
        # (a) library level
        if rep is None:
            inconc.append(f"case {idx} ({kind}): probe gave no report (rc={pr.rc} sig={pr.sig})")
            continue
        if rep.get("status") in ("panic", "comptime_panicked"):
            # the CLI did not panic on the same input, so this is a difference of the drivers
            inconc.append(f"case {idx} ({kind}): probe panicked but the CLI did not: {str(rep.get('panic'))[:200]}")
            continue
        if rep.get("status") != "ok":
            inconc.append(f"case {idx}: probe status {rep.get('status')}")
            continue
        E, U, X = rep["has_errors"], rep["unsafe_flag"], rep["type_error_with_expr"]
        if rep.get("mains") != 1:
            continue   # outside the quantifier (exactly one main)
        if E != c.rejected:
            inconc.append(f"case {idx} ({kind}): driver disagreement (probe has_errors={E}, CLI rejected={c.rejected})")
            continue
        counters["flag_checked"] += 1
        first = next((d.get("message") for d in rep["diagnostics"] if d.get("error")), None)
        parsed_ok = not any(d["phase"] == "front" and d.get("error") and "expected" in (d.get("message") or "") for d in rep["diagnostics"])
        if parsed_ok:
            sigs.add((kind.split(":")[0], "E" if E else "ok", shape(first)))
        if not E and U:
            add_v("unsafe_without_error", "unsafe_without_error|" + kind.split(":")[0], "no error was reported but the program is flagged unsafe to compile", {"files": files})
        if E and X and not U:
            add_v("error_not_flagged", "error_not_flagged|" + shape(first), f"a type error attributed to an expression was reported ({first}) but nothing is flagged unsafe to compile", {"files": files})
        if not E:
            cg = rep.get("codegen")
            if isinstance(cg, dict) and ("panic" in cg or "error" in cg):
                add_v("codegen_failed", "codegen_failed|" + shape(str(cg)), f"no error reported but code generation failed: {str(cg)[:300]}", {"files": files})
        if E and c.obj is not None:
            add_v("object_despite_errors", "object_despite_errors", "errors were reported and an object file was still written", {"files": files})
        if len(samples) < 5 and E and X and kind not in ("corpus",):
            samples.append({"mutation": kind, "first_error": first, "unsafe_flag": U, "cli": "rejected" if c.rejected else "accepted"})
    rep_out = {"evaluations": evals, "distinct_nontrivial": len(sigs), "violations": viol, "samples": samples,
               "counters": counters, "notes": [], "exhaustive": False}
    return C.finish("C07", tier, seed, t0, "exploration", rep_out, ASSUME, RULE, min_evals=200, inconclusive=inconc)


def replay(path):
    w = json.load(open(os.path.join(path, "witness.json")))
    files = (w.get("witness") or {}).get("files")
    C.build_cli()
    C.build_probe()
    work = C.fresh_dir("C07", "replay")
    c = R.compile_capy(work, files)
    pr, rep = P.run_pipeline(work)
    print(c.brief()[:1500])
    print({k: v for k, v in (rep or {}).items() if k not in ("sched", "diagnostics", "texts")})
    print(w.get("what"))
    return 1
