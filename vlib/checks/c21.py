"""C21 — builds are reproducible.

Each program (valid or invalid, single- or multi-file, with or without core) is compiled (a) three times by fresh CLI
processes (ASLR on) and (b) by `probe pipeline` with the discovered files processed in three different orders.
Monitor: the object file's bytes (hash) and the full diagnostic output. Oracle: byte equality.
"""
import hashlib
import json
import os
import re
import shutil
import time

from .. import common as C
from .. import capyrun as R
from .. import pipe as P

RULE = ("programs: corpus programs (valid and invalid, many importing core), their near-valid mutants, and generated multi-file trees (2..5 files with "
        "imports, shared types, consts, comptime blocks, generics; some with a type error in one file); each built 3x by the CLI and 3x by the probe "
        "pipeline with permuted file order; non-trivial = program with >= 2 files or >= 5 globals; distinct = distinct (file count, accepted?, uses core) tuples "
        "together with the program text hash")
ASSUME = ["timing fragments of the CLI output ('parsed in 0.00s', 'in 0.02s') and the absolute path of the build directory are masked before comparison",
          "for permuted file orders the diagnostics are compared as a sorted multiset and additionally as a sequence (a pure reordering is reported under its own key)"]

TIME_RE = re.compile(r"\d+\.\d+s")


def mask(out, run_dir=None):
    """timing fragments, and the absolute path of the directory this particular build ran in (it appears in some diagnostics,
    e.g. `/…/cli0/io.capy` couldn't be found), are not part of the compared output"""
    if run_dir:
        out = out.replace(run_dir, "<dir>")
    return TIME_RE.sub("<t>s", out)


def write_keep_out(d, files):
    R.write_files(d, files)


def gen_tree(rng, k):
    """a small multi-file program; returns {path: text}"""
    n = rng.range(2, 5)
    names = [f"m{i}" for i in range(n)]
    files = {}
    bad_file = rng.below(n + 2)   # >= n: no error
    for i, nm in enumerate(names):
        imps = [j for j in range(i + 1, n) if rng.chance(1, 2)]
        lines = [f"{names[j]} :: #import(\"{names[j]}.capy\");" for j in imps]
        lines.append(f"K{i} :: {10 + i + k};")
        lines.append(f"S{i} :: struct {{ a: i64, b: u8 }};")
        lines.append(f"E{i} :: enum {{ A, B: i64 }};")
        lines.append(f"CT{i} :: comptime {{ {i} * 7 + 1 }};")
        lines.append(f"f{i} :: (x: i64) -> i64 {{ x * {i + 2} + K{i} }}")
        generics = (k % 2 == 0)
        if generics:
            lines.append(f"g{i} :: (comptime T: type, x: T) -> T {{ x }}")
        else:
            lines.append(f"g{i} :: (t: type, x: i64) -> i64 {{ x }}")
        body = [f"s := S{i}.{{ a = x, b = {i} }};", f"r := s.a + f{i}(x) + g{i}(i64, CT{i});"]
        for j in imps:
            body.append(f"r = r + {names[j]}.f{j}(x) + {names[j]}.K{j};")
        if i == bad_file:
            body.append("r = r + true;")
        lines.append(f"h{i} :: (x: i64) -> i64 {{\n    " + "\n    ".join(body) + "\n    r\n}")
        files[nm + ".capy"] = "\n".join(lines) + "\n"
    main = [R.PRELUDE] + [f"{nm} :: #import(\"{nm}.capy\");" for nm in names]
    main.append("main :: () -> i32 {\n" + "\n".join(f"    vr_i64({i + 1}, {nm}.h{i}({i + 3}));" for i, nm in enumerate(names)) + "\n    0\n}")
    files["main.capy"] = "\n".join(main) + "\n"
    return files


BIG_PREVIOUS = {"main.capy": "S :: struct { a: i64, b: i64, c: [16]i64 };\n" + "".join(f"f{i} :: (x: i64) -> i64 {{ s : S; s.a = x * {i + 3}; s.c[{i % 16}] = s.a + {i}; s.c[{i % 16}] + s.a }}\n" for i in range(24)) +
                "main :: () -> i32 {\n    t : i64 = 0;\n" + "".join(f"    t = t + f{i}(t + {i});\n" for i in range(24)) + "    i32.(t % 100)\n}\n"}

STRUCT_CAST = {"main.capy": "A :: struct { a: i64, b: i32, c: u8, d: i16, e: u64, f: i8 };\nB :: struct { f: i16, e: u64, d: i64, c: u16, b: i64, a: i64 };\n"
               "conv :: (x: A) -> B { B.(x) }\nmain :: () -> i32 {\n    x := A.{ a = 1, b = 2, c = 3, d = 4, e = 5, f = 6 };\n    y := conv(x);\n"
               "    z : B = B.(A.{ a = 7, b = 8, c = 9, d = 10, e = 11, f = 12 });\n    i32.(y.a + y.b + i64.(y.c) + y.d + i64.(y.e) + i64.(y.f) + z.a)\n}\n"}


def one(job):
    idx, files, kind, work = job
    d = os.path.join(work, f"p{idx}")
    runs = []
    n_cli = 6 if kind == "struct_cast" else 3
    for k in range(n_cli):
        dk = os.path.join(d, f"cli{k}")
        if k == 2 and kind != "struct_cast":
            # "regardless of previous compilations": the third build happens in a directory that already holds the (larger)
            # output of another program under the same name
            R.compile_capy(dk, BIG_PREVIOUS)
            for f in BIG_PREVIOUS:
                if f not in files:
                    os.remove(os.path.join(dk, f))
            write_keep_out(dk, files)
            c = R.compile_capy(dk, files, keep_out=True)
        else:
            c = R.compile_capy(dk, files)
        # (a rejected build writes nothing, so in the dirty directory the older object is still there: it is not this build's output)
        h = hashlib.sha256(open(c.obj, "rb").read()).hexdigest() if (c.obj and c.rc == 0) else None
        runs.append((c, h, mask(c.out, dk)))
    pipes = []
    dp = os.path.join(d, "probe")
    os.makedirs(dp, exist_ok=True)
    R.write_files(dp, files)
    for order in (0, 1 + idx, 7919 + idx):
        pr, rep = P.run_pipeline(dp, order=order)
        pipes.append((pr, rep))
    shutil.rmtree(d, ignore_errors=True)
    return idx, kind, files, runs, pipes


def run(tier, seed):
    t0 = time.time()
    C.build_cli()
    C.build_probe()
    C.build_rt()
    work = C.fresh_dir("C21")
    rng = C.Rng(seed, 21)
    base = P.programs_with_main(C.corpus_texts())
    jobs = []
    n_corpus, n_mut, n_tree = (25, 25, 40) if tier == "quick" else (len(base), 1200, 1500)
    for t in rng.sample(base, min(n_corpus, len(base))):
        jobs.append((len(jobs), {"main.capy": t}, "corpus", work))
    for _ in range(n_mut):
        m, kind = P.semantic_mutant(rng, rng.pick(base))
        jobs.append((len(jobs), {"main.capy": m}, "mutant", work))
    for k in range(n_tree):
        jobs.append((len(jobs), gen_tree(rng, k), "tree", work))
    # a struct-to-struct cast with reordered and retyped members, built six times: per-member code emitted in hash order would
    # coincide between two processes only with probability 1/720
    jobs.append((len(jobs), STRUCT_CAST, "struct_cast", work))
    results = C.pmap(one, jobs)
    viol, inconc, samples, sigs = [], [], [], set()
    evals = 0
    cnt = {}
    counters = {"cli_builds": 0, "probe_builds": 0, "objects_compared": 0, "multi_file_programs": 0}

    def add_v(key, sig, what, wit):
        cnt[sig] = cnt.get(sig, 0) + 1
        if cnt[sig] <= 2:
            viol.append({"key": key, "sig": sig, "what": what, "witness": wit})

    for idx, kind, files, runs, pipes in results:
        if any(c.timed_out for c, _, _ in runs) or any(pr.timed_out for pr, _ in pipes):
            inconc.append(f"program {idx}: watchdog")
            continue
        evals += 1
        counters["cli_builds"] += len(runs)
        text_hash = hashlib.sha1("".join(sorted(files.values())).encode()).hexdigest()[:8]
        c0, h0, o0 = runs[0]
        if len(files) > 1:
            counters["multi_file_programs"] += 1
        if len(files) > 1 or sum(t.count(" :: ") for t in files.values()) >= 5:
            sigs.add((len(files), c0.accepted, any("#mod(\"core\")" in t for t in files.values()), text_hash))
        if c0.internal_error:
            continue    # C06's business; nothing to compare
        for k, (c, h, o) in enumerate(runs[1:], 1):
            if h != h0:
                add_v("cli_object_differs", "cli_object_differs|" + kind, f"two CLI builds of the same {kind} program produced different object files ({h0} vs {h})", {"files": files})
            if o != o0:
                add_v("cli_output_differs", "cli_output_differs|" + kind, "two CLI runs printed different diagnostics / messages for the same input", {"files": files, "first": o0[-600:], "other": o[-600:]})
        if h0:
            counters["objects_compared"] += 1
        reps = [rep for _, rep in pipes]
        if any(r is None or r.get("status") != "ok" for r in reps):
            if len({(r or {}).get("status") for r in reps}) > 1:
                add_v("probe_status_differs", "probe_status_differs|" + kind, f"the outcome depends on the order in which the files are processed: {[ (r or {}).get('status') for r in reps]}", {"files": files})
            continue
        counters["probe_builds"] += len(reps)
        objs = [json.dumps(r.get("codegen"), sort_keys=True) for r in reps]
        if len(set(objs)) > 1:
            feature = "generic_instantiations" if any("(comptime " in t for t in files.values()) else "no_generics"
            add_v("order_object_differs", "order_object_differs|" + feature, f"the object file depends on the order in which the files are processed: {objs}", {"files": files})

        def dkey(d):
            return (d.get("file"), d.get("start"), d.get("end"), d.get("error"), d.get("message"))
        seqs = [[dkey(d) for d in r["diagnostics"]] for r in reps]
        if len({json.dumps(sorted(s, key=str)) for s in seqs}) > 1:
            add_v("order_diagnostics_differ", "order_diagnostics_differ|" + kind, "the set of diagnostics depends on the order in which the files are processed", {"files": files, "diagnostics": seqs})
        elif len({json.dumps(s) for s in seqs}) > 1:
            add_v("order_diagnostics_reordered", "order_diagnostics_reordered|" + kind, "the same diagnostics are reported in a different order when the files are processed in a different order", {"files": files, "diagnostics": seqs})
        if len(samples) < 4 and len(files) > 1:
            samples.append({"files": sorted(files), "accepted": c0.accepted, "object_sha256": h0, "probe_objects": objs[:1]})
    # sanitizer part: a sample of the accepted programs (and one fixed program with a padded comptime struct) is compiled under
    # valgrind memcheck with definedness tracking; object bytes that are uninitialised memory make the object depend on whatever
    # was in that memory, even when the builds compared above happened to agree
    fixed = {"main.capy": "S :: struct { a: u8, b: i64 };\nG :: comptime { S.{ a = 1, b = 2 } };\nmain :: () -> i32 {\n    i32.(G.b)\n}\n"}
    acc = [files for idx, kind, files, runs, pipes in results if runs and runs[0][0].accepted and sum(len(t) for t in files.values()) < 4000
           and (tier != "quick" or not any("#mod(" in t for t in files.values()))]
    mc_jobs = [(0, fixed)] + [(k + 1, f) for k, f in enumerate(rng.sample(acc, min(2 if tier == "quick" else 40, len(acc))))]

    def mc_one(job):
        k, files = job
        d = os.path.join(work, f"mc{k}")
        c = R.compile_capy(d, files, cpu_s=900, mem_gb=0,
                           wrap=["valgrind", "-q", "--leak-check=no", "--undef-value-errors=yes", "--num-callers=14", "--error-exitcode=0"])
        shutil.rmtree(d, ignore_errors=True)
        return files, c
    n_mc = 0
    for files, c in C.pmap(mc_one, mc_jobs):
        if c.timed_out or c.cpu_exceeded:
            inconc.append("memcheck build: watchdog")
            continue
        n_mc += 1
        evals += 1
        if "Syscall param write(buf) points to uninitialised byte(s)" in c.err and "object::write" in c.err:
            feat = "has_comptime" if any("comptime" in t for t in files.values()) else "no_comptime"
            add_v("uninit_object_bytes", "uninit_object_bytes|" + feat, "valgrind memcheck: the bytes written to the object file contain uninitialised memory "
                  f"({feat}): the object is not a function of the sources alone", {"files": files, "memcheck": c.err[-1500:]})
        for m in R.MEMCHECK_REPORT.finditer(c.err):
            add_v("memcheck", "memcheck|" + m.group(1)[:60], f"valgrind memcheck: {m.group(1)} while compiling", {"files": files, "memcheck": c.err[-1500:]})
            break
    counters["memcheck_builds"] = n_mc
    rep_out = {"evaluations": evals, "distinct_nontrivial": len(sigs), "violations": viol, "samples": samples, "counters": counters,
               "notes": [f"{n_mc} builds under valgrind memcheck (definedness of the bytes written to the object file)"], "exhaustive": False}
    return C.finish("C21", tier, seed, t0, "exploration", rep_out, ASSUME, RULE, min_evals=50, inconclusive=inconc)


def replay(path):
    w = json.load(open(os.path.join(path, "witness.json")))
    files = (w.get("witness") or {}).get("files")
    print(w.get("what"))
    C.build_cli()
    C.build_probe()
    work = C.fresh_dir("C21", "replay")
    idx, kind, files, runs, pipes = one((0, files, "replay", work))
    print([h for _, h, _ in runs], [json.dumps((r or {}).get("codegen")) for _, r in pipes])
    return 1
