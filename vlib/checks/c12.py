"""C12 — implicit conversion laws.

(1) probe c12: the real Ty relations on a realisable universe (all ordered pairs), laws as oracles.
(2) behavioural cross-check through the real CLI: for pairs of typed values a, b the programs
    `x := if c { a } else { b }` and the swapped form must agree on acceptance, must never end in an
    internal error, and an accepted program must run; `t : T = a` accepted implies `T.(a)` accepted.
"""
import json
import os
import time

from .. import common as C
from .. import capyrun as R

RULE = ("(1) all ordered pairs over a universe of realisable types (every primitive, weak {int}/{uint}/{float}, nil, void, one constructor "
        "over every primitive with uid pools of size 2, sampled second constructor) through can_fit_into/can_cast_to/is_weak_replaceable_by/max; "
        "(2) all ordered pairs of ~45 typed value expressions compiled by the CLI as if/else with both branch orders and as annotation vs cast; "
        "non-trivial = pair of different types with a defined common type or accepted conversion; distinct = distinct (A, B, result) triples")
ASSUME = ["'accepted where expected' is evaluated as the checker does: can_fit_into, plus a zero-sized value where `type` is expected (top level only)",
          "the universe contains only realisable types (one declaration per uid, variants with their registered enum, weak types only where the checker leaves them)"]

DECLS = """
D8 :: distinct i8;
D32 :: distinct i32;
D32b :: distinct i32;
DD :: distinct D32;
S1 :: struct { a: i32, b: u8 };
S2 :: struct { a: i32, b: u8 };
E1 :: enum { A, B: i32, C };
E2 :: enum { A, B: i32, C };
"""

# (name, setup statements, expression)
VALUES = [
    ("i8", "v_i8 : i8 = 3;", "v_i8"), ("i16", "v_i16 : i16 = 3;", "v_i16"), ("i32", "v_i32 : i32 = 3;", "v_i32"),
    ("i64", "v_i64 : i64 = 3;", "v_i64"), ("isize", "v_is : isize = 3;", "v_is"),
    ("u8", "v_u8 : u8 = 3;", "v_u8"), ("u16", "v_u16 : u16 = 3;", "v_u16"), ("u32", "v_u32 : u32 = 3;", "v_u32"),
    ("u64", "v_u64 : u64 = 3;", "v_u64"), ("usize", "v_us : usize = 3;", "v_us"),
    ("f32", "v_f32 : f32 = 1.5;", "v_f32"), ("f64", "v_f64 : f64 = 1.5;", "v_f64"),
    ("bool", "v_b : bool = true;", "v_b"), ("char", "v_c : char = 'x';", "v_c"), ("str", "v_s : str = \"s\";", "v_s"),
    ("{uint}", "", "7"), ("{int}", "", "-7"), ("{float}", "", "2.5"), ("nil", "", "nil"),
    ("D8", "v_d8 : D8 = 3;", "v_d8"), ("D32", "v_d32 : D32 = 3;", "v_d32"), ("D32b", "v_d32b : D32b = 3;", "v_d32b"),
    ("DD", "v_dd : DD = 3;", "v_dd"),
    ("?i32", "v_oi32 : ?i32 = 3;", "v_oi32"), ("?i8", "v_oi8 : ?i8 = 3;", "v_oi8"), ("?D32", "v_od32 : ?D32 = v_d32x;", "v_od32"),
    ("?f64", "v_of64 : ?f64 = 1.5;", "v_of64"),
    ("S1", "v_s1 := S1.{ a = 1, b = 2 };", "v_s1"), ("S2", "v_s2 := S2.{ a = 1, b = 2 };", "v_s2"),
    ("anon_struct", "", ".{ a = 1, b = 2 }"),
    ("E1", "v_e1 : E1 = E1.B.(5);", "v_e1"), ("E1.A", "", "E1.A"), ("E1.B", "", "E1.B.(5)"), ("E2.A", "", "E2.A"), ("E2", "v_e2 : E2 = E2.C;", "v_e2"),
    ("[2]i32", "v_a2 : [2]i32 = i32.[1, 2];", "v_a2"), ("[3]i32", "v_a3 : [3]i32 = i32.[1, 2, 3];", "v_a3"),
    ("[2]i64", "v_a2l : [2]i64 = i64.[1, 2];", "v_a2l"), ("anon_array", "", ".[1, 2]"),
    ("[]i32", "v_sl : []i32 = v_a2x;", "v_sl"),
    ("^i32", "v_p : ^i32 = ^v_i32x;", "v_p"), ("^mut i32", "v_pm : ^mut i32 = ^mut v_i32m;", "v_pm"),
    ("str!i32", "v_eu : str!i32 = 3;", "v_eu"), ("str!i64", "v_eul : str!i64 = 3;", "v_eul"), ("u8!i32", "v_eu2 : u8!i32 = i32.(3);", "v_eu2"),
    ("type", "", "i32"), ("void", "", "{}"),
]
SETUP_COMMON = "v_d32x : D32 = 3; v_a2x : [2]i32 = i32.[1, 2]; v_i32x : i32 = 3; v_i32m : i32 = 3;"
TYPES = [n for n, _, _ in VALUES if not n.startswith(("{", "nil", "anon", "E1.", "E2.", "type", "void"))]


def prog_if(a, b):
    return R.PRELUDE + DECLS + f"""
main :: () -> i32 {{
    {SETUP_COMMON}
    {a[1]}
    {b[1] if b[1] != a[1] else ''}
    c := vr_opaque_i64(1) == 1;
    x := if c {{ {a[2]} }} else {{ {b[2]} }};
    0
}}
"""


def prog_annot(t, v, cast):
    val = f"{t}.({v[2]})" if cast else v[2]
    return R.PRELUDE + DECLS + f"""
main :: () -> i32 {{
    {SETUP_COMMON}
    {v[1]}
    t : {t} = {val};
    0
}}
"""


def behaviour(tier, seed, work):
    rng = C.Rng(seed, 12)
    pairs = [(a, b) for i, a in enumerate(VALUES) for b in VALUES[i + 1:]]
    if tier == "quick":
        pairs = rng.sample(pairs, 260)
    jobs = []
    for k, (a, b) in enumerate(pairs):
        jobs.append(("if", k, a, b))
    annot = [(t, v) for t in TYPES for v in VALUES if v[0] != t]
    if tier == "quick":
        annot = rng.sample(annot, 260)
    for k, (t, v) in enumerate(annot):
        jobs.append(("annot", k, t, v))

    def run_job(j):
        kind, k = j[0], j[1]
        d = os.path.join(work, f"{kind}{k}")
        os.makedirs(d, exist_ok=True)
        if kind == "if":
            a, b = j[2], j[3]
            c1 = R.compile_capy(os.path.join(d, "ab"), {"main.capy": prog_if(a, b)})
            c2 = R.compile_capy(os.path.join(d, "ba"), {"main.capy": prog_if(b, a)})
            ran = None
            if c1.accepted:
                ran = R.link_and_run(os.path.join(d, "ab"), c1.obj)
            return (j, c1, c2, ran)
        t, v = j[2], j[3]
        c1 = R.compile_capy(os.path.join(d, "fit"), {"main.capy": prog_annot(t, v, False)})
        c2 = R.compile_capy(os.path.join(d, "cast"), {"main.capy": prog_annot(t, v, True)})
        return (j, c1, c2, None)

    results = C.pmap(run_job, jobs)
    viol, inconc, sigs, samples = [], [], set(), []
    n = 0
    for j, c1, c2, ran in results:
        n += 1
        kind = j[0]
        if c1.timed_out or c2.timed_out:
            inconc.append(f"watchdog on {kind} {j[2][0] if kind == 'if' else j[2]}")
            continue
        if kind == "if":
            a, b = j[2], j[3]
            name = f"{a[0]} / {b[0]}"
            files = {"ab.capy": prog_if(a, b), "ba.capy": prog_if(b, a)}
            for c in (c1, c2):
                if c.internal_error:
                    viol.append({"key": "if_internal_error", "sig": f"internal_error|{c.panic_sig()}",
                                 "what": f"`if c {{ {a[0]} }} else {{ {b[0]} }}` (one of the two branch orders) ends in an internal compiler error: {c.brief()[:300]}",
                                 "witness": {"files": files}})
                    break
            else:
                if c1.accepted != c2.accepted:
                    viol.append({"key": "if_order", "sig": f"if_order|{a[0]}|{b[0]}",
                                 "what": f"if/else over ({name}) is {'accepted' if c1.accepted else 'rejected'} but with swapped branches {'accepted' if c2.accepted else 'rejected'}",
                                 "witness": {"files": files, "out_ab": c1.brief(), "out_ba": c2.brief()}})
                elif c1.accepted and ran is not None and (ran.link_failed or ran.rc != 0):
                    viol.append({"key": "if_run", "sig": f"if_run|{a[0]}|{b[0]}",
                                 "what": f"accepted if/else over ({name}) does not link/run cleanly (rc={ran.rc} sig={ran.sig} link_failed={ran.link_failed})",
                                 "witness": {"files": files}})
            if c1.accepted:
                sigs.add(("if", a[0], b[0]))
                if len(samples) < 4:
                    samples.append({"if_else_accepted_both_orders": name})
        else:
            t, v = j[2], j[3]
            files = {"fit.capy": prog_annot(t, v, False), "cast.capy": prog_annot(t, v, True)}
            if c1.internal_error or c2.internal_error:
                bad = c1 if c1.internal_error else c2
                viol.append({"key": "annot_internal_error", "sig": f"internal_error|{bad.panic_sig()}",
                             "what": f"`t : {t} = {v[0]}` or `{t}.({v[0]})` ends in an internal compiler error: {bad.brief()[:300]}",
                             "witness": {"files": files}})
            elif c1.accepted and not c2.accepted:
                viol.append({"key": "fit_not_cast", "sig": f"fit_not_cast|{t}|{v[0]}",
                             "what": f"a {v[0]} value is implicitly accepted where {t} is expected but the explicit cast {t}.(..) is rejected",
                             "witness": {"files": files, "out_cast": c2.brief()}})
            if c1.accepted:
                sigs.add(("fit", t, v[0]))
                if len(samples) < 6:
                    samples.append({"implicitly_accepted": f"{v[0]} -> {t}"})
    return n, viol, inconc, sigs, samples


def run(tier, seed):
    t0 = time.time()
    C.build_probe()
    C.build_cli()
    C.build_rt()
    rep = C.run_probe("c12", tier, seed)
    work = C.fresh_dir("C12")
    n, viol, inconc, sigs, samples = behaviour(tier, seed, work)
    rep["evaluations"] += n
    rep["violations"] = rep["violations"] + viol
    rep["distinct_nontrivial"] += len(sigs)
    rep["samples"] = rep["samples"][:4] + samples
    rep["counters"]["cli_pairs_compiled"] = n
    rep["counters"]["cli_pairs_accepted"] = len(sigs)
    return C.finish("C12", tier, seed, t0, "exploration", rep, ASSUME, RULE, min_evals=100000, inconclusive=inconc)


def replay(path):
    w = json.load(open(os.path.join(path, "witness.json")))
    files = (w.get("witness") or {}).get("files")
    if not files:
        print(json.dumps(w, indent=1)[:3000])
        return run("quick", 0)
    C.build_cli()
    work = C.fresh_dir("C12", "replay")
    for name, text in files.items():
        c = R.compile_capy(os.path.join(work, name.replace(".capy", "")), {"main.capy": text})
        print(f"--- {name}: accepted={c.accepted} rejected={c.rejected} internal_error={c.internal_error}\n{c.brief()[:800]}")
    print(f"VIOLATION property=C12 replay={path}" if w else "")
    return 1
