"""Generator for check C04: types, values, printers and deterministic bodies.

Everything here only WRITES capy text and computes, in python, the value the text denotes (from the README semantics of
literals, + - * / %, casts that preserve the value, control flow). It never looks at what capy does.
"""
import struct

INTS = {"i8": (8, True), "i16": (16, True), "i32": (32, True), "i64": (64, True), "i128": (128, True), "isize": (64, True),
        "u8": (8, False), "u16": (16, False), "u32": (32, False), "u64": (64, False), "u128": (128, False), "usize": (64, False)}
INT_NAMES = list(INTS)


class Ty:
    def __init__(self, kind, name, **kw):
        self.kind, self.name = kind, name
        self.bits = kw.get("bits")
        self.signed = kw.get("signed")
        self.elem = kw.get("elem")
        self.n = kw.get("n")
        self.fields = kw.get("fields")        # [(name, Ty)]
        self.variants = kw.get("variants")    # [(name, Ty|None)]
        self.sub = kw.get("sub")              # optional / error-union payload
        self.err = kw.get("err")              # error type of an error union
        self.cands = kw.get("cands")          # candidate names of a `type` value


def t_int(name):
    b, s = INTS[name]
    return Ty("int", name, bits=b, signed=s)


T_F32, T_F64 = Ty("float", "f32", bits=32), Ty("float", "f64", bits=64)
T_BOOL, T_CHAR, T_STR = Ty("bool", "bool"), Ty("char", "char"), Ty("str", "str")
T_DSTR = Ty("str", "DS")      # DS :: distinct str


def int_range(T):
    if T.signed:
        return -(1 << (T.bits - 1)), (1 << (T.bits - 1)) - 1
    return 0, (1 << T.bits) - 1


def size(T):
    """number of event ids the printer of T may use"""
    k = T.kind
    if k in ("int", "float", "bool", "char", "str"):
        return 1
    if k == "arr":
        return T.n * size(T.elem)
    if k == "struct":
        return sum(size(f) for _, f in T.fields)
    if k == "enum":
        return 1 + max([size(p) for _, p in T.variants if p is not None] + [0])
    if k == "opt":
        return 1 + size(T.sub)
    if k == "eu":
        return 1 + max(size(T.sub), size(T.err))
    if k == "type":
        return len(T.cands)
    raise ValueError(k)


def shape(T):
    k = T.kind
    if k in ("int", "float", "bool", "char", "str", "type"):
        return T.name
    if k == "arr":
        return f"[{T.n}]{shape(T.elem)}"
    if k == "struct":
        return "{" + ",".join(shape(f) for _, f in T.fields) + "}"
    if k == "enum":
        return "<" + "|".join(shape(p) if p is not None else "-" for _, p in T.variants) + ">"
    if k == "opt":
        return "?" + shape(T.sub)
    if k == "eu":
        return shape(T.err) + "!" + shape(T.sub)
    raise ValueError(k)


def has_kind(T, kind):
    if T.kind == kind:
        return True
    if T.kind == "arr":
        return has_kind(T.elem, kind)
    if T.kind == "struct":
        return any(has_kind(f, kind) for _, f in T.fields)
    if T.kind == "enum":
        return any(p is not None and has_kind(p, kind) for _, p in T.variants)
    if T.kind == "opt":
        return has_kind(T.sub, kind)
    if T.kind == "eu":
        return has_kind(T.sub, kind) or has_kind(T.err, kind)
    return False


def padding_free(T):
    """types whose captured bytes are all value bytes (no padding, no tag)"""
    if T.kind in ("int", "float", "bool", "char", "type"):
        return True
    if T.kind == "arr":
        return padding_free(T.elem)
    return False


# --------------------------------------------------------------------------- type environment of one program

class Env:
    def __init__(self, rng):
        self.rng = rng
        self.decls = []            # global type declarations
        self.structs, self.enums, self.errs = [], [], []
        self.prs = {}              # type name -> (function name, text)
        self.cands = []
        self._build()

    def _scalar(self, allow_str=False, wide=True):
        r = self.rng
        k = r.weighted([("int", 10), ("float", 3), ("bool", 2), ("char", 2)] + ([("str", 2)] if allow_str else []))
        if k == "int":
            names = INT_NAMES if wide else [n for n in INT_NAMES if INTS[n][0] <= 64]
            return t_int(r.pick(names))
        return {"float": r.pick([T_F32, T_F64]), "bool": T_BOOL, "char": T_CHAR, "str": T_STR}[k]

    @staticmethod
    def arr(elem, n):
        return Ty("arr", f"[{n}]{elem.name}", elem=elem, n=n)

    @staticmethod
    def opt(sub):
        return Ty("opt", "?" + sub.name, sub=sub)

    def _build(self):
        r = self.rng
        # S0: scalars only; S1: nested aggregate; S2: with str / optional / enum members
        f0 = [(f"m{i}", self._scalar()) for i in range(r.range(2, 4))]
        s0 = Ty("struct", "S0", fields=f0)
        self.structs.append(s0)
        e0 = Ty("enum", "E0", variants=[("V0", None), ("V1", self._scalar()), ("V2", self._scalar(wide=False))][: r.range(2, 3)] + [("V3", None)][: r.range(0, 1)])
        self.enums.append(e0)
        sc = self._scalar()
        f1 = [("m0", self._scalar()), ("m1", s0), ("m2", self.arr(sc, r.range(1, 3)))]
        if r.chance(1, 2):
            f1.append(("m3", self.arr(s0, 2)))
        r.shuffle(f1)
        f1 = [(f"m{i}", t) for i, (_, t) in enumerate(f1)]
        s1 = Ty("struct", "S1", fields=f1)
        self.structs.append(s1)
        pay = [None, self._scalar(), s0, self.arr(self._scalar(wide=False), 2), self.opt(self._scalar(wide=False)), s1]
        r.shuffle(pay)
        e1 = Ty("enum", "E1", variants=[(f"V{i}", p) for i, p in enumerate(pay[: r.range(3, 5)])])
        self.enums.append(e1)
        f2 = [("m0", self._scalar()), ("m1", self.opt(r.pick([self._scalar(wide=False), s0]))), ("m2", r.pick([e0, e1])), ("m3", self._scalar())]
        r.shuffle(f2)
        f2 = [(f"m{i}", t) for i, (_, t) in enumerate(f2)]
        s2 = Ty("struct", "S2", fields=f2)
        self.structs.append(s2)
        rv = [("X0", t_int(r.pick(["i32", "u8", "i64", "u16"]))), ("X1", None), ("X2", r.pick([T_BOOL, s0, t_int("i16")]))]
        r0 = Ty("enum", "R0", variants=rv[: r.range(2, 3)])
        self.errs.append(r0)
        for t in (s0, e0, s1, e1, s2, r0):
            self.decls.append(self.decl_text(t))
        self.decls.append("Sel :: enum { X, Y, Z };")
        self.decls.append("DS :: distinct str;")
        self.cands = ["i32", "i64", "u8", "f64", "bool", "str", "S0", "[3]i32", "E0", "S1"]

    @staticmethod
    def decl_text(t):
        if t.kind == "struct":
            return f"{t.name} :: struct {{ " + ", ".join(f"{n}: {ft.name}" for n, ft in t.fields) + " };"
        return f"{t.name} :: enum {{ " + ", ".join(n if p is None else f"{n}: {p.name}" for n, p in t.variants) + " };"

    # ---- random result type
    def gen_type(self, depth=2):
        r = self.rng
        k = r.weighted([("int", 25), ("float", 8), ("bool", 4), ("char", 4), ("str", 6), ("arr", 12), ("struct", 14), ("enum", 9), ("opt", 8), ("eu", 6), ("type", 4)])
        return self.gen_type_of(k, depth)

    def gen_type_of(self, k, depth=2):
        r = self.rng
        if k == "int":
            return t_int(r.pick(INT_NAMES))
        if k == "float":
            return r.pick([T_F32, T_F64])
        if k == "str":
            return T_DSTR if r.chance(1, 5) else T_STR
        if k in ("bool", "char"):
            return {"bool": T_BOOL, "char": T_CHAR}[k]
        if k == "arr":
            ek = r.weighted([("scalar", 10), ("struct", 4), ("arr", 3), ("enum", 2)])
            if ek == "scalar":
                return self.arr(self._scalar(), r.pick([17, 33, 40]) if r.chance(1, 10) else r.range(1, 6))
            if ek == "struct":
                return self.arr(r.pick(self.structs), r.range(1, 3))
            if ek == "arr":
                return self.arr(self.arr(self._scalar(), r.range(1, 3)), r.range(1, 3))
            return self.arr(r.pick(self.enums), r.range(1, 3))
        if k == "struct":
            return r.pick(self.structs)
        if k == "enum":
            return r.pick(self.enums)
        if k == "opt":
            sk = r.weighted([("scalar", 8), ("struct", 4), ("enum", 2)])
            sub = self._scalar() if sk == "scalar" else r.pick(self.structs) if sk == "struct" else r.pick(self.enums)
            return self.opt(sub)
        if k == "eu":
            sk = r.weighted([("int", 6), ("other", 3), ("struct", 3)])
            sub = t_int(r.pick(INT_NAMES)) if sk == "int" else r.pick([T_BOOL, T_F64, T_F32, T_CHAR]) if sk == "other" else r.pick(self.structs)
            err = self.errs[0]
            return Ty("eu", f"{err.name}!{sub.name}", sub=sub, err=err)
        if k == "type":
            return Ty("type", "type", cands=list(self.cands))
        raise ValueError(k)

    # ---- printers
    def pr(self, T):
        key = T.name
        if key not in self.prs:
            name = f"pr_{len(self.prs)}"
            self.prs[key] = (name, None)
            body = render(self, T, "v", 0, top=True)
            self.prs[key] = (name, f"{name} :: (b: i64, v: {T.name}) {{\n" + "\n".join("    " + s for s in body) + "\n}")
        return self.prs[key][0]

    def pr_texts(self):
        return [t for _, t in self.prs.values()]


def render(env, T, v, off, top=False):
    """capy statements printing every leaf of the value expression `v` of type T with ids b+off.."""
    k = T.kind
    B = f"b + {off}"
    if k == "int":
        if T.bits == 128:
            return [f"vr_hex128({B}, u64.({v}), u64.({v} >> 64));"]
        if T.signed:
            return [f"vr_i64({B}, {v});" if T.name == "i64" else f"vr_i64({B}, i64.({v}));"]
        return [f"vr_u64({B}, {v});" if T.name == "u64" else f"vr_u64({B}, u64.({v}));"]
    if k == "float":
        return [f"vr_f32bits({B}, {v});" if T.bits == 32 else f"vr_f64bits({B}, {v});"]
    if k == "bool":
        return [f"vr_bool({B}, {v});"]
    if k == "char":
        return [f"vr_u64({B}, u64.(u8.({v})));"]
    if k == "str":
        return ["vr_flush();", f"vr_str({B}, {v});" if T.name == "str" else f"vr_str({B}, str.({v}));"]
    if k == "type":
        return [f"vr_bool(b + {off + i}, {v} == {c});" for i, c in enumerate(T.cands)]
    if k == "arr":
        out, sz = [], size(T.elem)
        for i in range(T.n):
            out += render(env, T.elem, f"{v}[{i}]", off + i * sz)
        return out
    if not top:
        return [f"{env.pr(T)}({B}, {v});"]
    if k == "struct":
        out, o = [], off
        for fn, ft in T.fields:
            out += render(env, ft, f"{v}.{fn}", o)
            o += size(ft)
        return out
    if k == "enum":
        arms = []
        for i, (vn, p) in enumerate(T.variants):
            inner = [f"vr_i64({B}, {i});"] + ([f"wp : {p.name} = {p.name}.(w);"] + render(env, p, "wp", off + 1) if p is not None else [])
            arms.append(f"    .{vn} => {{ " + " ".join(inner) + " },")
        return [f"switch w in {v} {{"] + arms + ["}"]
    if k == "opt":
        inner = [f"vr_i64({B}, 1);"] + render(env, T.sub, "w", off + 1)
        return [f"switch w in {v} {{", f"    {T.sub.name} => {{ " + " ".join(inner) + " },", f"    nil => {{ vr_i64({B}, 0); }},", "}"]
    if k == "eu":
        ok = [f"vr_i64({B}, 0);"] + render(env, T.sub, "w", off + 1)
        er = [f"vr_i64({B}, 1);"] + render(env, T.err, "w", off + 1)
        return [f"switch w in {v} {{", f"    {T.sub.name} => {{ " + " ".join(ok) + " },", f"    {T.err.name} => {{ " + " ".join(er) + " },", "}"]
    raise ValueError(k)


def f32_bits(x):
    return struct.unpack("<I", struct.pack("<f", x))[0]


def f64_bits(x):
    return struct.unpack("<Q", struct.pack("<d", x))[0]


def is_dyadic_f32(x):
    try:
        return struct.unpack("<f", struct.pack("<f", x))[0] == x
    except OverflowError:
        return False


def leaves(T, val, off):
    """[(tag, off, value string or None when the model does not predict it, label)] in print order"""
    k = T.kind
    if k == "int":
        if T.bits == 128:
            return [("H", off, f"{val % (1 << 128):032x}", T.name)]
        return [("I" if T.signed else "U", off, str(val), T.name)]
    if k == "float":
        if T.bits == 32:
            return [("F", off, f"{f32_bits(val):08x}" if is_dyadic_f32(val) else None, "f32")]
        return [("D", off, f"{f64_bits(val):016x}", "f64")]
    if k == "bool":
        return [("B", off, "1" if val else "0", "bool")]
    if k == "char":
        return [("U", off, str(val), "char")]
    if k == "str":
        return [("S", off, val, "str")]
    if k == "type":
        return [("B", off + i, "1" if c == val else "0", "type_eq") for i, c in enumerate(T.cands)]
    if k == "arr":
        out, sz = [], size(T.elem)
        for i in range(T.n):
            out += leaves(T.elem, val[i], off + i * sz)
        return out
    if k == "struct":
        out, o = [], off
        for (fn, ft), fv in zip(T.fields, val):
            out += leaves(ft, fv, o)
            o += size(ft)
        return out
    if k == "enum":
        i, pv = val
        p = T.variants[i][1]
        return [("I", off, str(i), "enum_tag")] + (leaves(p, pv, off + 1) if p is not None else [])
    if k == "opt":
        if val is None:
            return [("I", off, "0", "opt_tag")]
        return [("I", off, "1", "opt_tag")] + leaves(T.sub, val, off + 1)
    if k == "eu":
        tag, pv = val
        if tag == "ok":
            return [("I", off, "0", "eu_tag")] + leaves(T.sub, pv, off + 1)
        return [("I", off, "1", "eu_tag")] + leaves(T.err, pv, off + 1)
    raise ValueError(k)


# --------------------------------------------------------------------------- values

STR_ALPHA = "abcdefghijklmnopqrstuvwxyzABCDEFGHIJKLMNOPQRSTUVWXYZ0123456789 _-+*/=<>()[]{}.,:;!?#@$&|~^"


def gen_str(rng):
    n = rng.pick([0, 1, 2, 5, 9, 17, 40, 100, 200, 300]) if rng.chance(1, 2) else rng.range(1, 30)
    esc = rng.chance(1, 3)
    out = []
    for _ in range(n):
        if out and out[-1] == "\n":
            out.append(rng.pick("abcdefghijklmnopqrstuvwxyz"))     # a continuation line never looks like an event line of the runtime
        elif esc and rng.chance(1, 6):
            out.append(rng.pick(["\n", "\t", '"', "\\"]))
        else:
            out.append(rng.pick(STR_ALPHA))
    return "".join(out).strip()


def gen_int_value(rng, T):
    lo, hi = int_range(T)
    c = rng.below(10)
    if c < 4:
        edge = [lo, lo + 1, hi, hi - 1, 0, 1, hi // 2 + 1]
        if T.signed:
            edge += [-1, -2, lo // 2]
        else:
            edge += [(hi + 1) // 2, (hi + 1) // 2 + 5]
        return rng.pick(edge)
    if c < 7:
        span = hi - lo + 1
        return lo + (rng.next() * (1 << 64) + rng.next()) % span
    return max(lo, min(hi, rng.range(-100, 100) if T.signed else rng.range(0, 200)))


def gen_float_value(rng, T):
    c = rng.below(10)
    if c < 7:
        return rng.range(-(1 << 18), 1 << 18) / 64.0
    if c < 8:
        return rng.pick([0.0, 1.0, -1.0, 0.5, 1048576.0, -0.015625])
    return float(f"{rng.range(-99999, 99999)}.{rng.range(0, 999):03d}".rstrip("0") + "5")


def gen_value(rng, T):
    k = T.kind
    if k == "int":
        return gen_int_value(rng, T)
    if k == "float":
        return gen_float_value(rng, T)
    if k == "bool":
        return rng.chance(1, 2)
    if k == "char":
        while True:
            c = rng.range(32, 126)
            if chr(c) not in "'\\":
                return c
    if k == "str":
        return gen_str(rng)
    if k == "type":
        return rng.pick(T.cands)
    if k == "arr":
        if T.elem.kind == "int" and T.n >= 2 and rng.chance(1, 3):
            lo, hi = int_range(T.elem)
            step = rng.pick([-7, -3, -1, 1, 2, 5, 11])
            if not T.elem.signed:
                step = abs(step)
            base = gen_int_value(rng, T.elem)
            if step < 0:
                base = max(base, lo - step * T.n)
            else:
                base = min(base, hi - step * T.n)
            if lo <= base <= hi and lo <= base + step * (T.n - 1) <= hi:
                return [base + i * step for i in range(T.n)]
        return [gen_value(rng, T.elem) for _ in range(T.n)]
    if k == "struct":
        return [gen_value(rng, ft) for _, ft in T.fields]
    if k == "enum":
        i = rng.below(len(T.variants))
        p = T.variants[i][1]
        return (i, gen_value(rng, p) if p is not None else None)
    if k == "opt":
        return None if rng.chance(1, 4) else gen_value(rng, T.sub)
    if k == "eu":
        if rng.chance(2, 5):
            return ("err", gen_value(rng, T.err))
        return ("ok", gen_value(rng, T.sub))
    raise ValueError(k)


# --------------------------------------------------------------------------- bodies

class Prog:
    """program-level state shared by all bodies of one file set"""

    def __init__(self, rng, env):
        self.rng, self.env = rng, env
        self.counter = 0
        self.helpers = {}      # name -> text (global functions / aliases of main.capy)
        self.consts = []       # global const lines of main.capy

    def fresh(self, p):
        self.counter += 1
        return f"{p}_{self.counter}"


class Ctx:
    def __init__(self, prog, feats, no_helpers=False):
        self.prog, self.rng, self.env = prog, prog.rng, prog.env
        self.stmts = []
        self.feats = feats
        self.no_helpers = no_helpers
        self.in_helper = False     # inside the body of a shared helper function: no nested comptime there (the run-time copy calls it too)

    def sub(self, helper=False):
        c = Ctx(self.prog, self.feats, self.no_helpers)
        c.in_helper = self.in_helper or helper
        return c

    def fresh(self, p):
        return self.prog.fresh(p)

    def helper(self, name, text):
        self.prog.helpers.setdefault(name, text)
        return name


def int_lit(T, v):
    if v >= 0:
        return str(v)
    lo, _ = int_range(T)
    if v == lo:
        return f"-{-(v + 1)} - 1"
    return f"-{-v}"


def decl_int(ctx, T, v):
    """typed local holding v, written with literals only"""
    n = ctx.fresh("v")
    if T.bits == 128 and not (-(1 << 63) < v < (1 << 63)):
        ctx.feats.add("wide_literal_build")
        neg, mag, extra = v < 0, abs(v), False
        if neg and v == -(1 << 127):
            mag, extra = (1 << 127) - 1, True
        p = [(mag >> s) & 0xFFFFFFFF for s in (96, 64, 32, 0)]
        ctx.stmts.append(f"{n} : {T.name} = {p[0]};")
        for q in p[1:]:
            ctx.stmts.append(f"{n} = {n} * 4294967296 + {q};")
        if neg:
            ctx.stmts.append(f"{n} = 0 - {n};")
        if extra:
            ctx.stmts.append(f"{n} = {n} - 1;")
    else:
        ctx.stmts.append(f"{n} : {T.name} = {int_lit(T, v)};")
    return n


def float_lit(v):
    s = repr(float(v))
    if "e" in s or "inf" in s or "nan" in s:
        raise ValueError(s)
    return s


def small_near(rng, lo, hi, v, span=60):
    """a value a with lo <= a <= hi and lo <= v - a <= hi, preferring small |a|; None if impossible"""
    a_lo, a_hi = max(lo, v - hi), min(hi, v - lo)
    if a_lo > a_hi:
        return None
    c_lo, c_hi = max(a_lo, -span), min(a_hi, span)
    if c_lo <= c_hi and rng.chance(2, 3):
        return rng.range(c_lo, c_hi)
    return a_lo + (rng.next() * (1 << 64) + rng.next()) % (a_hi - a_lo + 1)


def gen_bool(ctx, truth, d):
    r = ctx.rng
    c = r.below(6) if d > 0 else r.below(2)
    if c == 0:
        n = ctx.fresh("b")
        ctx.stmts.append(f"{n} : bool = {'true' if truth else 'false'};")
        return n
    if c in (1, 2, 3):
        T = t_int(r.pick(["i8", "i32", "u16", "i64", "u64", "usize", "u8"]))
        lo, hi = int_range(T)
        a = r.range(max(lo, -50), min(hi, 90))
        op = r.pick(["<", "<=", ">", ">=", "==", "!="])
        pool = [b for b in range(max(lo, a - 3), min(hi, a + 3) + 1)
                if {"<": a < b, "<=": a <= b, ">": a > b, ">=": a >= b, "==": a == b, "!=": a != b}[op] == truth]
        if not pool:
            n = ctx.fresh("b")
            ctx.stmts.append(f"{n} : bool = {'true' if truth else 'false'};")
            return n
        b = r.pick(pool)
        ctx.feats.add("cmp")
        return f"({decl_int(ctx, T, a)} {op} {decl_int(ctx, T, b)})"
    if c == 4:
        ctx.feats.add("not")
        return f"!{gen_bool(ctx, not truth, d - 1)}"
    ctx.feats.add("logic")
    if truth:
        if r.chance(1, 2):
            return f"({gen_bool(ctx, True, d - 1)} && {gen_bool(ctx, True, d - 1)})"
        x = r.chance(1, 2)
        return f"({gen_bool(ctx, x, d - 1)} || {gen_bool(ctx, not x or r.chance(1, 2), d - 1)})" if x else f"({gen_bool(ctx, False, d - 1)} || {gen_bool(ctx, True, d - 1)})"
    if r.chance(1, 2):
        return f"({gen_bool(ctx, False, d - 1)} || {gen_bool(ctx, False, d - 1)})"
    x = r.chance(1, 2)
    return f"({gen_bool(ctx, x, d - 1)} && {gen_bool(ctx, not x, d - 1)})"


def fits(T, v):
    lo, hi = int_range(T)
    return lo <= v <= hi


def gen_int(ctx, T, v, d):
    r = ctx.rng
    lo, hi = int_range(T)
    if d <= 0:
        return decl_int(ctx, T, v)
    opts = ["lit", "add", "add", "sub", "mul", "div", "mod", "cast", "cast", "loop", "loop", "arrelem", "fcast"]
    if not ctx.no_helpers:
        opts += ["call_add", "call_rec", "const", "fnptr"]
    s = r.pick(opts)
    if s == "add":
        a = small_near(r, lo, hi, v)
        if a is not None:
            ctx.feats.add("arith")
            return f"({gen(ctx, T, a, d - 1)} + {gen(ctx, T, v - a, d - 1)})"
    elif s == "sub":
        # a - b = v
        b_lo, b_hi = max(lo, lo - v), min(hi, hi - v)
        if b_lo <= b_hi:
            b = r.range(max(b_lo, -40), min(b_hi, 40)) if max(b_lo, -40) <= min(b_hi, 40) else b_lo
            ctx.feats.add("arith")
            return f"({gen(ctx, T, v + b, d - 1)} - {gen(ctx, T, b, d - 1)})"
    elif s == "mul":
        fs = [f for f in (2, 3, 5, 7, 10, 16) if v != 0 and v % f == 0]
        if fs:
            f = r.pick(fs)
            ctx.feats.add("arith")
            return f"({gen(ctx, T, v // f, d - 1)} * {gen(ctx, T, f, d - 1)})"
    elif s == "div" and T.bits <= 64 and v >= 0:
        b = r.range(2, 9)
        a = v * b + r.below(b)
        if a <= hi:
            ctx.feats.add("divmod")
            return f"({gen_int(ctx, T, a, d - 1)} / {gen_int(ctx, T, b, d - 1)})"
    elif s == "mod" and T.bits <= 64 and 0 <= v < 100:
        b = v + r.range(1, 20)
        a = v + b * r.range(0, 5)
        if b <= hi and a <= hi:
            ctx.feats.add("divmod")
            return f"({gen_int(ctx, T, a, d - 1)} % {gen_int(ctx, T, b, d - 1)})"
    elif s == "cast":
        ws = [n for n in INT_NAMES if n != T.name and fits(t_int(n), v)]
        if ws:
            W = t_int(r.pick(ws))
            ctx.feats.add("cast")
            return f"{T.name}.({gen_int(ctx, W, v, d - 1)})"
    elif s == "fcast" and T.bits <= 64 and abs(v) < (1 << 20):
        F = r.pick([T_F32, T_F64])
        ctx.feats.add("cast_float")
        return f"{T.name}.({gen_float(ctx, F, float(v), d - 1)})"
    elif s == "loop":
        cnt = r.range(1, 12)
        step = r.pick([-9, -4, -1, 1, 2, 3, 7, 25])
        if not T.signed and r.chance(1, 2):
            step = abs(step)
        start = v - cnt * step
        if lo <= start <= hi and (cnt <= hi):
            acc = decl_int(ctx, T, start)
            i = ctx.fresh("i")
            IT = r.pick(["i32", "usize", "u8", "i64"])
            upd = f"{acc} = {acc} + {step};" if step > 0 else f"{acc} = {acc} - {-step};"
            form = r.below(4)
            ctx.stmts.append(f"{i} : {IT} = 0;")
            if form == 0:
                ctx.feats.add("while")
                ctx.stmts.append(f"while {i} < {cnt} {{ {upd} {i} = {i} + 1; }};")
            elif form == 1:
                ctx.feats.add("loop_break")
                ctx.stmts.append(f"loop {{ if {i} == {cnt} {{ break; }} {upd} {i} += 1; }};")
            elif form == 2:
                ctx.feats.add("continue")
                ctx.stmts.append(f"while {i} < {2 * cnt} {{ {i} = {i} + 1; if {i} % 2 == 0 {{ continue; }} {upd} }};")
            else:
                ctx.feats.add("while")
                j = ctx.fresh("j")
                ctx.stmts.append(f"while {i} < {cnt} {{ {j} : {IT} = 0; while {j} < 1 {{ {upd} {j} += 1; }}; {i} += 1; }};")
            return acc
    elif s == "arrelem":
        n = r.range(1, 4)
        idx = r.below(n)
        vals = [gen_int_value(r, T) for _ in range(n)]
        vals[idx] = v
        a = ctx.fresh("a")
        ctx.stmts.append(f"{a} : [{n}]{T.name} = {T.name}.[" + ", ".join(gen_int(ctx, T, x, 0) for x in vals) + "];")
        ix = ctx.fresh("x")
        ctx.stmts.append(f"{ix} : usize = {idx};")
        ctx.feats.add("array")
        if r.chance(1, 2):
            sl = ctx.fresh("sl")
            ctx.stmts.append(f"{sl} : []{T.name} = {a};")
            ctx.feats.add("slice")
            return f"{sl}[{ix}]"
        return f"{a}[{ix}]"
    elif s == "call_add":
        a = small_near(r, lo, hi, v)
        if a is not None:
            h = ctx.helper(f"h_add_{T.name}", f"h_add_{T.name} :: (a: {T.name}, b: {T.name}) -> {T.name} {{ a + b }}")
            ctx.feats.add("call")
            return f"{h}({gen(ctx, T, a, d - 1)}, {gen(ctx, T, v - a, d - 1)})"
    elif s == "call_rec":
        cnt = r.range(1, 9)
        step = r.pick([1, 2, 5, 13]) * (-1 if T.signed and r.chance(1, 2) else 1)
        start = v - cnt * step
        if lo <= start <= hi:
            h = ctx.helper(f"h_rec_{T.name}", f"h_rec_{T.name} :: (n: u8, step: {T.name}, acc: {T.name}) -> {T.name} {{\n"
                           f"    if n == 0 {{ return acc; }}\n    h_rec_{T.name}(n - 1, step, acc + step)\n}}")
            ctx.feats.add("recursion")
            return f"{h}({decl_int(ctx, t_int('u8'), cnt)}, {decl_int(ctx, T, step)}, {gen_int(ctx, T, start, d - 1)})"
    elif s == "const":
        dlt = r.range(-5, 5)
        kv = v - dlt
        if lo <= kv <= hi and (T.bits <= 64 or abs(kv) < (1 << 62)):
            k = ctx.fresh("K")
            if kv >= 0 and r.chance(1, 2):      # `K : i32 : -5;` is not a constant for capy (unary minus is an operation)
                ctx.prog.consts.append(f"{k} : {T.name} : {int_lit(T, kv)};")
                ctx.feats.add("const_global")
            else:
                ctx.prog.consts.append(f"{k} : {T.name} : comptime {{ {int_lit(T, kv)} }};")
                ctx.feats.add("comptime_const_global")
            return f"({k} + {decl_int(ctx, T, dlt)})" if dlt >= 0 else f"({k} - {decl_int(ctx, T, -dlt)})"
    elif s == "fnptr":
        dlt = r.range(-6, 6)
        if lo <= v - dlt <= hi and (T.signed or dlt >= 0):
            al = ctx.helper(f"Fn_{T.name}", f"Fn_{T.name} :: (x: {T.name}) -> {T.name};")
            h = ctx.helper(f"h_ap_{T.name}", f"h_ap_{T.name} :: (f: {al}, x: {T.name}) -> {T.name} {{ f(x) }}")
            lam = ctx.fresh("lam")
            ctx.stmts.append(f"{lam} :: (x: {T.name}) -> {T.name} {{ x + {int_lit(T, dlt)} }};" if dlt >= 0 else f"{lam} :: (x: {T.name}) -> {T.name} {{ x - {-dlt} }};")
            ctx.feats.add("fnptr")
            return f"{h}({lam}, {gen_int(ctx, T, v - dlt, d - 1)})"
    return decl_int(ctx, T, v)


def gen_float(ctx, T, v, d):
    r = ctx.rng
    dyadic64 = (v * 64.0 == int(v * 64.0)) and abs(v * 64.0) <= (1 << 19)
    s = r.pick(["lit", "add", "mul", "icast", "fcast"]) if d > 0 else "lit"
    if s == "add" and dyadic64:
        k = int(v * 64.0)
        ka = r.range(-(1 << 12), 1 << 12)
        ctx.feats.add("float_arith")
        return f"({gen_float(ctx, T, ka / 64.0, d - 1)} + {gen_float(ctx, T, (k - ka) / 64.0, d - 1)})"
    if s == "mul" and dyadic64:
        ctx.feats.add("float_arith")
        return f"({gen_float(ctx, T, v / 2.0, d - 1)} * {gen_float(ctx, T, 2.0, 0)})" if (v / 2.0) * 64 == int((v / 2.0) * 64) else f"({gen_float(ctx, T, v * 2.0, d - 1)} * {gen_float(ctx, T, 0.5, 0)})"
    if s == "icast" and v == int(v) and abs(v) < (1 << 20):
        W = t_int(r.pick(["i32", "i64", "i16"] if abs(v) < 30000 else ["i32", "i64"]))
        ctx.feats.add("cast_float")
        return f"{T.name}.({gen_int(ctx, W, int(v), d - 1)})"
    if s == "fcast" and is_dyadic_f32(v):
        O = T_F64 if T.bits == 32 else T_F32
        ctx.feats.add("cast_float")
        return f"{T.name}.({gen_float(ctx, O, v, d - 1)})"
    n = ctx.fresh("f")
    ctx.stmts.append(f"{n} : {T.name} = {float_lit(v)};")
    return n


def str_lit(s):
    return '"' + s.replace("\\", "\\\\").replace('"', '\\"').replace("\n", "\\n").replace("\t", "\\t") + '"'


def gen_direct(ctx, T, v, d):
    """an expression of type T denoting v (statements hoisted into ctx.stmts)"""
    r = ctx.rng
    k = T.kind
    if k == "int":
        return gen_int(ctx, T, v, d)
    if k == "float":
        return gen_float(ctx, T, v, d)
    if k == "bool":
        return gen_bool(ctx, v, d)
    if k == "char":
        if d > 0 and r.chance(1, 2):
            ctx.feats.add("cast")
            return f"char.({gen_int(ctx, t_int('u8'), v, d - 1)})"
        n = ctx.fresh("c")
        ctx.stmts.append(f"{n} : char = '{chr(v)}';")
        return n
    if k == "str":
        if r.chance(1, 2):
            return str_lit(v)
        n = ctx.fresh("s")
        ctx.stmts.append(f"{n} : {T.name} = {str_lit(v)};")
        return n
    if k == "type":
        return v
    if k == "arr":
        E = T.elem
        if E.kind == "int" and T.n >= 2 and d > 0 and all(v[i + 1] - v[i] == v[1] - v[0] for i in range(T.n - 1)) and 0 < abs(v[1] - v[0]) * (T.n - 1) <= min(1000, int_range(E)[1]) and r.chance(2, 3):
            step = v[1] - v[0]
            a, i = ctx.fresh("a"), ctx.fresh("i")
            base = decl_int(ctx, E, v[0])
            ctx.stmts.append(f"{a} : {T.name};")
            ctx.stmts.append(f"{i} : usize = 0;")
            rhs = f"{base} + {E.name}.({i}) * {step}" if step > 0 else f"{base} - {E.name}.({i}) * {-step}"
            ctx.stmts.append(f"while {i} < {T.n} {{ {a}[{i}] = {rhs}; {i} = {i} + 1; }};")
            ctx.feats.add("array_fill_loop")
            return a
        if d > 0 and r.chance(1, 3):
            # literal with other values, then element stores
            alt = [gen_value(r, E) for _ in range(T.n)]
            keep = r.below(T.n)
            alt[keep] = v[keep]
            a = ctx.fresh("a")
            ctx.stmts.append(f"{a} : {T.name} = {E.name}.[" + ", ".join(gen_direct(ctx, E, x, 0) for x in alt) + "];")
            for j in range(T.n):
                if j != keep:
                    ctx.stmts.append(f"{a}[{j}] = {gen(ctx, E, v[j], d - 1)};")
            ctx.feats.add("array_store")
            return a
        ctx.feats.add("array_literal")
        return f"{E.name}.[" + ", ".join(gen(ctx, E, x, d - 1) for x in v) + "]"
    if k == "struct":
        if d > 0 and r.chance(1, 3):
            alt = [gen_value(r, ft) for _, ft in T.fields]
            keep = r.below(len(T.fields))
            alt[keep] = v[keep]
            s = ctx.fresh("s")
            ctx.stmts.append(f"{s} : {T.name} = {T.name}.{{ " + ", ".join(f"{fn} = {gen_direct(ctx, ft, x, 0)}" for (fn, ft), x in zip(T.fields, alt)) + " };")
            for j, (fn, ft) in enumerate(T.fields):
                if j != keep:
                    if ft.kind == "struct" and r.chance(1, 2):
                        for (gn, gt), gv in zip(ft.fields, v[j]):
                            ctx.stmts.append(f"{s}.{fn}.{gn} = {gen(ctx, gt, gv, d - 1)};")
                    else:
                        ctx.stmts.append(f"{s}.{fn} = {gen(ctx, ft, v[j], d - 1)};")
            ctx.feats.add("struct_store")
            return s
        ctx.feats.add("struct_literal")
        return f"{T.name}.{{ " + ", ".join(f"{fn} = {gen(ctx, ft, x, d - 1)}" for (fn, ft), x in zip(T.fields, v)) + " }"
    if k == "enum":
        i, pv = v
        vn, p = T.variants[i]
        e = ctx.fresh("e")
        rhs = f"{T.name}.{vn}" if p is None else f"{T.name}.{vn}.({gen(ctx, p, pv, d - 1)})"
        ctx.stmts.append(f"{e} : {T.name} = {rhs};")
        ctx.feats.add("enum_payload" if p is not None else "enum_unit")
        return e
    if k == "opt":
        o = ctx.fresh("o")
        ctx.stmts.append(f"{o} : {T.name} = nil;" if v is None else f"{o} : {T.name} = {gen(ctx, T.sub, v, d - 1)};")
        ctx.feats.add("opt_nil" if v is None else "opt_some")
        return o
    if k == "eu":
        tag, pv = v
        rr = ctx.fresh("r")
        use_try = d > 0 and not ctx.no_helpers and r.chance(1, 3)
        c2 = ctx.sub(helper=True) if use_try else ctx
        inner = gen(c2, T.sub if tag == "ok" else T.err, pv, d - 1)
        x = ctx.fresh("x")
        c2.stmts.append(f"{x} : {(T.sub if tag == 'ok' else T.err).name} = {inner};")
        ctx.feats.add("eu_err" if tag == "err" else "eu_ok")
        if use_try:
            # produce the union in one helper and forward it through `.try` in a second one
            q, t = ctx.fresh("hq"), ctx.fresh("ht")
            ctx.prog.helpers[q] = f"{q} :: () -> {T.name} {{\n" + "".join(f"    {s}\n" for s in c2.stmts) + f"    {rr} : {T.name} = {x};\n    {rr}\n}}"
            ctx.prog.helpers[t] = f"{t} :: () -> {T.name} {{\n    p : {T.sub.name} = {q}().try;\n    w : {T.name} = p;\n    w\n}}"
            ctx.feats.add("try")
            return f"{t}()"
        ctx.stmts.append(f"{rr} : {T.name} = {x};")
        return rr
    raise ValueError(k)


def block_text(stmts, expr, ind="    "):
    return "{\n" + "".join(f"{ind}    {s}\n" for s in stmts) + f"{ind}    {expr}\n{ind}}}"


def gen(ctx, T, v, d):
    """gen_direct, possibly wrapped in a control-flow / call / pointer / nested-comptime construct that preserves the value"""
    r = ctx.rng
    if d <= 0 or not r.chance(3, 10):
        return gen_direct(ctx, T, v, d)
    e = gen_wrapped(ctx, T, v, d)
    if e[0] in "`{@" or e.startswith(("if ", "switch ")):
        # `(a + `l: {..})`, `comptime {..} + b` (= comptime ({..} + b)), `{..}[i]` do not parse as intended: name the value first
        w = ctx.fresh("w")
        ctx.stmts.append(f"{w} := {e};" if T.kind == "type" else f"{w} : {T.name} = {e};")
        return w
    return e


def gen_wrapped(ctx, T, v, d):
    r = ctx.rng
    k = T.kind
    ws = ["if", "lblock", "block"] + ([] if ctx.in_helper else ["nested"])
    if k != "type":
        ws += ["ptr", "lambda"]
        if k in ("int", "float", "bool", "char", "str", "struct", "enum"):
            ws += ["unwrap"]
        if not ctx.no_helpers:
            ws += ["callid", "switch"]
    if not ctx.no_helpers:
        ws += ["callfn"]
    w = r.pick(ws)
    if w in ("if", "lblock", "switch"):
        alt = gen_direct(ctx, T, gen_value(r, T), 0)
        main = gen_direct(ctx, T, v, d - 1)
        if k in ("arr", "struct") or (k == "str" and main.startswith('"')):
            # keep both operands as typed locals
            m = ctx.fresh("t")
            ctx.stmts.append(f"{m} : {T.name} = {main};")
            main = m
        if k in ("arr", "struct") or (k == "str" and alt.startswith('"')):
            m = ctx.fresh("t")
            ctx.stmts.append(f"{m} : {T.name} = {alt};")
            alt = m
        if w == "if":
            truth = r.chance(1, 2)
            c = gen_bool(ctx, truth, 1)
            ctx.feats.add("if")
            return f"if {c} {{ {main if truth else alt} }} else {{ {alt if truth else main} }}"
        if w == "lblock":
            truth = r.chance(1, 2)
            c = gen_bool(ctx, truth, 1)
            lb = ctx.fresh("L")
            ctx.feats.add("labeled_block")
            return f"`{lb}: {{ if {c} {{ break `{lb} {main if truth else alt}; }}; {alt if truth else main} }}"
        sel = r.below(3)
        s, q = ctx.fresh("sel"), ctx.fresh("q")
        ctx.stmts.append(f"{s} : Sel = Sel.{'XYZ'[sel]};")
        arms = [alt, alt, alt]
        arms[sel] = main
        ctx.feats.add("switch")
        return f"switch {q} in {s} {{ .X => {arms[0]}, .Y => {arms[1]}, .Z => {arms[2]} }}"
    if w == "nested":
        sub = ctx.sub()
        e = gen_direct(sub, T, v, d - 1)
        ctx.feats.add("nested_comptime")
        return "@CT@" + block_text(sub.stmts, e)
    if w == "block":
        sub = ctx.sub()
        e = gen_direct(sub, T, v, d - 1)
        ctx.feats.add("block_expr")
        return block_text(sub.stmts, e)
    if w == "ptr":
        x, p = ctx.fresh("t"), ctx.fresh("p")
        ctx.stmts.append(f"{x} : {T.name} = {gen_direct(ctx, T, gen_value(r, T), 0)};")
        ctx.stmts.append(f"{p} : ^mut {T.name} = ^mut {x};")
        ctx.stmts.append(f"{p}^ = {gen_direct(ctx, T, v, d - 1)};")
        ctx.feats.add("pointer")
        return x
    if w == "lambda":
        lam = ctx.fresh("lam")
        ctx.stmts.append(f"{lam} :: (x: {T.name}) -> {T.name} {{ x }};")
        ctx.feats.add("lambda")
        return f"{lam}({gen_direct(ctx, T, v, d - 1)})"
    if w == "unwrap":
        o = ctx.fresh("o")
        ctx.stmts.append(f"{o} : ?{T.name} = {gen_direct(ctx, T, v, d - 1)};")
        if r.chance(1, 2):
            ctx.feats.add("unwrap")
            return f"#unwrap({o}, {T.name})"
        alt = ctx.fresh("t")
        ctx.stmts.append(f"{alt} : {T.name} = {gen_direct(ctx, T, gen_value(r, T), 0)};")
        ctx.feats.add("is_variant")
        return f"if #is_variant({o}, {T.name}) {{ #unwrap({o}, {T.name}) }} else {{ {alt} }}"
    if w == "callid":
        key = ctx.env.pr(T)[3:]
        h = ctx.helper(f"h_id_{key}", f"h_id_{key} :: (x: {T.name}) -> {T.name} {{ x }}")
        ctx.feats.add("call")
        return f"{h}({gen_direct(ctx, T, v, d - 1)})"
    if w == "callfn":
        sub = ctx.sub(helper=True)
        e = gen_direct(sub, T, v, d - 1)
        h = ctx.fresh("hf")
        if r.chance(1, 2):
            c = gen_bool(sub, True, 1)
            alt = gen_direct(sub, T, gen_value(r, T), 0)
            ctx.prog.helpers[h] = f"{h} :: () -> {T.name} {{\n" + "".join(f"    {s}\n" for s in sub.stmts) + f"    if {c} {{ return {e}; }};\n    {alt}\n}}"
            ctx.feats.add("return")
        else:
            ctx.prog.helpers[h] = f"{h} :: () -> {T.name} {{\n" + "".join(f"    {s}\n" for s in sub.stmts) + f"    {e}\n}}"
        ctx.feats.add("call")
        return f"{h}()"
    raise ValueError(w)


def resolve_ct(text, comptime):
    """the marker of a nested comptime block: `comptime` in the compile-time copy, a plain block in the run-time copy"""
    return text.replace("@CT@", "comptime " if comptime else "")
