"""C01 generator, part 2: statements, functions, whole programs.

Observable effects (prints, writes through pointers, impure calls) only happen at statement level:
  * `vr_*` prints, assignments, `x : T = impure_call(pure args);`, `impure_call(pure args);`,
    `if pure && impure_bool_call(...) {..}` (the call on the RIGHT of && / ||),
so nothing depends on the evaluation order of operands or arguments (README is silent about it).
Loops are counted (`c += 1` is the first statement of the body), recursion carries a literal fuel argument,
pointers and slices only refer to variables that outlive them and are never returned or stored in aggregates.
"""
from .c01_ref import INT_INFO
from .c01_ast import N, Block, FuncDef, Program, T, BOOL, CHAR, VOID, F32, F64, I64, U64, USIZE, INT_NAMES
from .c01_genx import ExprGen, Ctx, Var, lit, var, strong

ASSIGN_OPS = ["+=", "-=", "*=", "&=", "|=", "~="]


class Gen(ExprGen):
    # ================================================================== program
    def gen_program(self):
        rng = self.rng
        p = self.prog = Program()
        self.int_focus = [T(n) for n in rng.sample(INT_NAMES, rng.range(3, 5))]
        self.float_on = rng.chance(1, 6)
        self.variant_direct = self.L >= 3 and rng.chance(1, 2)      # fixed in /repo (fcaa61b): a regular construct now
        self.empty_vararg_first = self.L >= 4 and rng.chance(1, 40)
        self.selfref_literal = self.L >= 2 and rng.chance(1, 2)      # fixed in /repo: a regular construct now
        # README is silent on whether a switch argument is a copy of the payload or an alias of the scrutinee (capy aliases),
        # so no program writes the scrutinee inside an arm: not constrained by the statement, not judged
        self.scrutinee_write = False
        self.weak_lit_errunion = self.L >= 3 and rng.chance(1, 30)
        self.unused_varargs = self.L >= 4 and rng.chance(1, 30)
        self.array_arm_binding = self.L >= 3 and rng.chance(1, 25)
        self.fault = None
        if self.L >= 4 and rng.chance(24, 100):
            self.fault = rng.pick(["index_array", "index_slice", "unwrap"])
        self.fault_done = False
        self.gen_types()
        n_consts = rng.below(3) if rng.chance(1, 2) else 0
        for _ in range(n_consts):
            t = rng.pick(self.int_focus + [BOOL])
            v = self.gen_lit(t)
            if self.is_int(t) and v.val < 0:
                v.val = -(v.val + 1)
            self.use("global_const")
            p.consts.append((self.fresh("G"), t, v))
        room = 12 - 1 - len(p.type_order) + len(p.inline_structs) - len(p.consts)
        n_funcs = min(max(0, room), rng.pick([0, 1, 2, 2, 3, 3, 4, 5]))
        fault_fn = None
        if self.fault and n_funcs and rng.chance(1, 3):
            fault_fn = rng.below(n_funcs)
        for i in range(n_funcs):
            f = self.gen_function(inject_fault=(i == fault_fn))
            p.funcs.append(f)
        self.gen_main()
        p.constructs = set(self.tags)
        return p

    # ------------------------------------------------------------------ types
    def scalar_ty(self, allow_float=True):
        rng = self.rng
        r = rng.below(20)
        if r < 13:
            t = rng.pick(self.int_focus)
            return t
        if r < 15 and self.prog.distincts:
            return ("distinct", rng.pick(sorted(self.prog.distincts)))
        if r < 17:
            return BOOL
        if r < 18:
            return CHAR
        if self.float_on and allow_float:
            return rng.pick([F32, F64])
        return rng.pick(self.int_focus)

    def gen_types(self):
        rng = self.rng
        p = self.prog
        self.agg_types = []
        self.sum_types = []
        if self.L >= 3 and rng.chance(1, 4):
            name = self.fresh("D")
            p.distincts[name] = rng.pick(self.int_focus)
            p.type_order.append(("distinct", name))
        if self.L < 2:
            return
        n_struct = rng.pick([0, 1, 1, 2])
        n_enum = rng.pick([0, 1, 1, 2]) if self.L >= 3 else 0
        for i in range(n_struct):
            self.new_struct()
        for i in range(n_enum):
            self.new_enum()
        if n_struct and n_enum and rng.chance(1, 2):
            self.new_struct(with_sums=True)
        # array types
        for _ in range(rng.range(1, 3)):
            self.agg_types.append(("array", self.scalar_ty(), rng.range(1, 6)))
        for s in list(p.structs):
            if s not in p.inline_structs and rng.chance(1, 2):
                self.agg_types.append(("array", ("struct", s), rng.range(1, 3)))
        if rng.chance(1, 3):
            self.agg_types.append(("array", ("array", self.scalar_ty(), rng.range(1, 3)), rng.range(1, 3)))
        if self.L >= 3:
            for _ in range(rng.range(1, 3)):
                self.sum_types.append(("opt", self.payload_ty()))
            errs = [("enum", e) for e in p.enums] * 3 + [("struct", s) for s in p.structs if s not in p.inline_structs] + [BOOL]
            for _ in range(rng.range(1, 2)):
                e = rng.pick(errs)
                for _ in range(5):
                    t = self.payload_ty()
                    if t != e and not (self.base(t)[0] == "array" and self.base(t)[1] == e):
                        self.sum_types.append(("err", e, t))
                        if rng.chance(2, 3):
                            self.sum_types.append(("opt", e))      # a function -> ?E can absorb the error of E!T through .try
                        break
            for e in p.enums:
                self.sum_types.append(("enum", e))
                if rng.chance(1, 3):
                    self.sum_types.append(("opt", ("enum", e)))
        if self.L >= 4 and rng.chance(1, 3):
            name = self.fresh("Fn")
            ps = [(self.fresh("a"), self.scalar_ty()) for _ in range(rng.range(1, 2))]
            p.fnaliases[name] = (ps, self.scalar_ty())
            p.type_order.append(("fnalias", name))

    def payload_ty(self):
        rng = self.rng
        r = rng.below(10)
        named = [s for s in self.prog.structs if s not in self.prog.inline_structs]
        if r < 6 or (r < 8 and not named):
            return self.scalar_ty()
        if r < 8:
            return ("struct", rng.pick(named))
        return ("array", self.scalar_ty(), rng.range(1, 3))

    def new_struct(self, with_sums=False):
        rng = self.rng
        p = self.prog
        name = self.fresh("S")
        fields = []
        named = [s for s in p.structs if s not in p.inline_structs]
        for i in range(rng.range(1, 4)):
            r = rng.below(10)
            if r < 6:
                t = self.scalar_ty()
            elif r < 8:
                t = ("array", self.scalar_ty(), rng.range(1, 4))
            elif named:
                t = ("struct", rng.pick(named))
                self.use("nested_aggregate")
            else:
                t = self.scalar_ty()
            fields.append((self.fresh("m"), t))
        if rng.chance(1, 2) or with_sums:
            # a NON-FIRST member that is itself an aggregate (compared recursively by ==, copied as a block)
            cands = [("array", rng.pick(self.int_focus), rng.range(2, 3))]
            if named:
                cands.append(("struct", rng.pick(named)))
            if self.L >= 3:
                cands += [("opt", rng.pick(self.int_focus)), ("err", BOOL, rng.pick(self.int_focus))]
                if p.enums:
                    cands.append(("enum", rng.pick(sorted(p.enums))))
            fields.append((self.fresh("m"), rng.pick(cands)))
            if rng.chance(1, 2):
                fields.append((self.fresh("m"), rng.pick(self.int_focus + [BOOL])))
            self.use("nonfirst_aggregate_member")
        if with_sums:
            fields.append((self.fresh("m"), ("opt", self.scalar_ty())))
            if p.enums and rng.chance(1, 2):
                fields.append((self.fresh("m"), ("enum", rng.pick(sorted(p.enums)))))
            self.use("sum_in_struct")
        p.structs[name] = fields
        p.type_order.append(("struct", name))
        self.agg_types.append(("struct", name))
        return name

    def new_enum(self):
        rng = self.rng
        p = self.prog
        name = self.fresh("E")
        vs = []
        disc = None
        named = [s for s in p.structs if s not in p.inline_structs]
        for i in range(rng.range(2, 5)):
            r = rng.below(10)
            pl = None
            if r < 3:
                pl = None
            elif r < 6:
                pl = self.scalar_ty()
            elif r < 8:
                sn = "%s_p%d" % (name, i)
                p.structs[sn] = [(self.fresh("m"), self.scalar_ty()) for _ in range(rng.range(1, 3))]
                p.inline_structs.add(sn)
                pl = ("struct", sn)
            elif r < 9 and named:
                pl = ("struct", rng.pick(named))
            else:
                pl = ("array", self.scalar_ty(), rng.range(1, 3))
            d = None
            if rng.chance(1, 4):
                disc = (disc if disc is not None else i) + rng.range(2, 9)
                d = disc
            elif disc is not None:
                disc += 1
            vs.append(("V%d" % i, pl, d))
        p.enums[name] = vs
        p.type_order.append(("enum", name))
        return name

    def decl_ty(self, kinds):
        """a type for a new local / parameter: kinds subset of scalar/agg/sum"""
        pool = []
        if "agg" in kinds:
            pool += self.agg_types
        if "sum" in kinds:
            pool += self.sum_types
        if not pool or ("scalar" in kinds and self.rng.chance(1, 2)):
            return self.scalar_ty()
        return self.rng.pick(pool)

    # ================================================================== functions
    def gen_function(self, inject_fault=False):
        rng = self.rng
        name = self.fresh("fun")
        r = rng.below(100)
        if r < 8:
            ret = BOOL
        elif r < 45:
            ret = self.scalar_ty()
        elif r < 62:
            ret = VOID
        elif r < 74 and self.agg_types:
            ret = rng.pick(self.agg_types)
        elif self.sum_types:
            ret = rng.pick(self.sum_types)
        else:
            ret = self.scalar_ty()
        if self.L >= 3:
            errs = [t for t in self.sum_types if t[0] == "err"]
            producers = [f for f in self.prog.funcs if f.ret[0] == "err" and not f.rec]
            if producers and rng.chance(1, 3):
                ret = ("opt", rng.pick(producers).ret[1])        # consumer: `.try` on E!T inside -> ?E
            elif errs and rng.chance(1, 6):
                ret = rng.pick(errs)                              # producer
        params = []
        for _ in range(rng.range(0, 4)):
            r = rng.below(100)
            if r < 55 or self.L < 2:
                t = self.scalar_ty()
            elif r < 70:
                t = self.decl_ty({"agg", "sum"})
            elif r < 85:
                to = self.decl_ty({"scalar", "agg"}) if rng.chance(2, 3) else self.decl_ty({"sum", "scalar"})
                t = ("ptr", to, rng.chance(1, 2))
            elif r < 93:
                t = ("slice", self.decl_ty({"scalar"}) if rng.chance(3, 4) else self.decl_ty({"agg", "scalar"}))
            elif self.prog.fnaliases:
                t = ("fn", rng.pick(sorted(self.prog.fnaliases)))
            else:
                t = self.scalar_ty()
            params.append((self.fresh("p"), t, False))
        padded_va = None
        if self.L >= 4 and rng.chance(1, 8):
            # varargs whose ELEMENT type has tail padding (size != stride): ?i32, E!i64, payload enums, struct { i64, bool }
            cands = self.padded_types()
            if cands:
                self.use("varargs")
                self.use("varargs_padded")
                padded_va = self.fresh("p")
                params = params[:2] + [(padded_va, rng.pick(cands), True)]
        if padded_va is None and self.L >= 4 and rng.chance(1, 7):
            self.use("varargs")
            if rng.chance(1, 3):
                # two varargs groups separated by a parameter of another type
                params = params[:2] + [(self.fresh("p"), self.rng.pick(self.int_focus), True), (self.fresh("p"), BOOL, False)]
            params.append((self.fresh("p"), self.decl_ty({"scalar"}), True))
        # a signature that matches a function alias now and then (so that it can be passed around)
        if self.prog.fnaliases and padded_va is None and rng.chance(1, 3):
            an = rng.pick(sorted(self.prog.fnaliases))
            ps, ret = self.prog.fnaliases[an]
            params = [(self.fresh("p"), t, False) for _, t in ps]
        impure_sig = ret == VOID or any(t[0] == "ptr" and t[2] for _, t, _ in params) or any(t[0] == "fn" for _, t, _ in params)
        pure = (not impure_sig) and padded_va is None and rng.chance(1, 2)
        rec = self.base(ret)[0] in ("int", "bool") and not any(va for _, _, va in params) and rng.chance(1, 7)
        if rec:
            self.use("recursion")
            params = [(self.fresh("n"), T("u8"), False)] + params
        f = FuncDef(name, params, ret, None, pure)
        f.rec = rec
        f.padded_va = padded_va
        ctx = Ctx(name, ret, pure)
        for pn, pt, va in params:
            self.declare(ctx, pn, ("slice", pt) if va else pt, False, kind="param")
        pre = []
        mid = None
        if rec:
            nv = N("var", name=params[0][0], ty=T("u8"))
            ctx.hoist.append(pre)
            base = self.gen_expr(ctx, ret, 1)
            ctx.hoist.pop()
            pre.append(N("if", cond=N("bin", op="==", a=nv, b=lit(T("u8"), 0), ty=BOOL), then=Block([N("return", value=base)]), els=None))

            def mid(c, f=f, nv=nv):
                args = [N("bin", op="-", a=nv, b=lit(T("u8"), 1), ty=T("u8"))]
                for pn, pt, va in f.params[1:]:
                    args.append(self.gen_arg(c, pt, 1))
                call = N("call", fn=N("var", name=f.name, ty=VOID), groups=args, ty=f.ret)
                vname = self.fresh()
                self.declare(c, vname, f.ret, False)
                return [N("decl", name=vname, ty=f.ret, mut=False, init=call, annotate=True)]
        inject = []
        n = rng.range(1, 7)
        if mid is not None:
            inject.append((rng.below(n + 1), mid))
        if padded_va is not None:
            inject.append((0, lambda c: self.va_dump(c, padded_va)))
        if inject_fault:
            inject.append((rng.below(n + 1), self.gen_fault_stmts))
        if self.base(ret)[0] in ("opt", "err"):
            inject.append((rng.below(n + 1), lambda c: self.st_try(c) or []))
        if not pure:
            inject.append((n, lambda c: self.dump(c, 3)))
        body = self.gen_block(ctx, n, tail_ty=None if ret == VOID else ret, fresh_scope=False, inject=inject)
        touch = []
        for pn, pt, va in params:
            if va:
                # recorded defect 'unused_varargs': a varargs parameter that the body never mentions panics codegen
                # (no layout for its slice type) at the call; programs that did not opt in always read its length
                if self.unused_varargs:
                    self.use("unused_varargs")
                else:
                    touch.append(N("decl", name=self.fresh(), ty=USIZE, mut=False, init=N("len", e=N("var", name=pn, ty=("slice", pt)), ty=USIZE), annotate=True, keep=True))
        body.stmts = touch + pre + body.stmts
        f.body = body
        return f

    def layout(self, ty):
        """(size without tail padding, alignment) the way a C-like layout gives it; None for types it does not model"""
        b = self.base(ty)
        if b[0] == "int":
            n = self.info(b)[0] // 8
            return n, min(n, 8) if n < 16 else 8
        if b[0] in ("bool", "char"):
            return 1, 1
        if b[0] == "float":
            return b[1] // 8, b[1] // 8
        if b[0] == "array":
            l = self.layout(b[1])
            if l is None:
                return None
            stride = -(-l[0] // l[1]) * l[1]
            return stride * (b[2] - 1) + l[0], l[1]
        if b[0] == "struct":
            off, al = 0, 1
            for _, ft in self.prog.structs[b[1]]:
                l = self.layout(ft)
                if l is None:
                    return None
                off = -(-off // l[1]) * l[1] + l[0]
                al = max(al, l[1])
            return off, al
        return None

    def padded_types(self):
        """element types whose size is not a multiple of their alignment (so that size != stride)"""
        out = [("opt", t) for t in self.int_focus if self.info(t)[0] >= 16] + [("opt", T("i32"))]
        for t in self.sum_types:
            if t[0] == "err" or (t[0] == "opt" and self.base(t[1])[0] != "enum"):
                out.append(t)
            if t[0] == "enum" and any(pl is not None and (self.layout(pl) or (2, 2))[1] > 1 for _, pl, _ in self.prog.enums[t[1]]):
                out.extend([t, t])
        for sn in self.prog.structs:
            if sn in self.prog.inline_structs:
                continue
            l = self.layout(("struct", sn))
            if l is None or l[0] % l[1] != 0:
                out.extend([("struct", sn)] * 3)
        return out

    def va_dump(self, ctx, pn):
        """first statements of a function with a padded varargs parameter: its length, then EVERY element, leaf by leaf"""
        v = [x for x in ctx.scopes[0] if x.name == pn][0]
        elem = self.base(v.ty)[1]
        out = [N("print", id=self.new_id(), e=N("len", e=var(v), ty=USIZE))]
        cname = self.fresh("c")
        self.declare(ctx, cname, USIZE, True, kind="counter")
        cv = N("var", name=cname, ty=USIZE)
        ename = self.fresh()
        el = N("index", base=var(v), idx=N("bin", op="-", a=cv, b=lit(USIZE, 1), ty=USIZE), ty=elem)
        ev_ = N("var", name=ename, ty=elem)
        body = [N("assign", place=cv, op="+=", e=lit(USIZE, 1)), N("decl", name=ename, ty=elem, mut=False, init=el, annotate=self.rng.chance(1, 2))]
        if self.is_sum(elem):
            self.use("is_variant")
            for target, tag in self.sum_targets(elem)[:5]:
                body.append(N("print", id=self.new_id(), e=N("isvar", e=ev_, target=target, ty=BOOL)))
            body.extend(self.print_payloads(ctx, ev_, elem, limit=6))
        else:
            body.extend(self.print_all(ctx, ev_, elem, limit=8))
        self.use("while")
        out.append(N("decl", name=cname, ty=USIZE, mut=True, init=lit(USIZE, 0), annotate=True))
        out.append(N("while", cond=N("bin", op="<", a=cv, b=N("len", e=var(v), ty=USIZE), ty=BOOL), body=Block(body), label=None))
        return out

    def gen_main(self):
        rng = self.rng
        p = self.prog
        ret = VOID
        if self.L >= 4 and rng.chance(1, 2):
            ret = T(rng.pick(INT_NAMES))
            self.use("main_int")
            self.tag_int(ret)
        else:
            self.use("main_void")
        ctx = Ctx("main", ret, False)
        ctx.budget = 22
        n = rng.range(5, 16)
        inject = []
        if self.fault and not self.fault_done_planned():
            inject.append((rng.range(1, n), self.gen_fault_stmts))
        self.in_main = True
        body = self.gen_block(ctx, n, tail_ty=None, fresh_scope=False, inject=inject, final=self.main_final)
        p.main = FuncDef("main", [], ret, body, False)

    def fault_done_planned(self):
        return self.fault_done

    def dump(self, ctx, k):
        """prints of up to k scalar designators that are visible here (final state of the function)"""
        ps = self.paths(ctx, self.scalar_printable, dyn=False)
        ps = [x for x in ps if x[0].k != "lit" and self.root_kind(ctx, x[0]) != "global"]
        self.rng.shuffle(ps)
        return [N("print", id=self.new_id(), e=e) for e, t in ps[:k]]

    def root_kind(self, ctx, e):
        name = self.root_name(e)
        for v in self.visible(ctx):
            if v.name == name:
                return v.kind
        return None

    def main_final(self, ctx, out):
        """last statements of main: call what was never called, the final state, then the exit status"""
        rng = self.rng
        out.extend(self.dump(ctx, 5))
        for f in self.prog.funcs:
            if f.name not in self.called and ctx.budget > -20:
                pre = []
                ctx.hoist.append(pre)
                s = self.call_stmt(ctx, f)
                ctx.hoist.pop()
                out.extend(pre)
                out.extend(s)
        ret = ctx.ret
        if ret == VOID:
            return None
        pre = []
        ctx.hoist.append(pre)
        if rng.chance(3, 5):
            bits, signed = self.info(ret)
            hi = 127 if bits == 8 and signed else 255
            tail = lit(ret, rng.range(1, hi))
            if rng.chance(1, 6):
                tail = lit(ret, self.int_value(ret))
        else:
            tail = self.gen_expr(ctx, ret, 2)
        ctx.hoist.pop()
        out.extend(pre)
        return tail

    # ================================================================== blocks
    def gen_block(self, ctx, n, tail_ty=None, fresh_scope=True, binds=(), label=None, inject=(), final=None, tail_fn=None):
        if fresh_scope:
            ctx.scopes.append([])
        for b in binds:
            ctx.scopes[-1].append(b)
            b.level = len(ctx.scopes) - 1
        ctx.depth += 1
        defers0 = ctx.defers
        out = []
        inject = sorted(inject, key=lambda x: x[0])
        for i in range(n + 1):
            for pos, fn in inject:
                if pos == i:
                    pre = []
                    ctx.hoist.append(pre)
                    ss = fn(ctx)
                    ctx.hoist.pop()
                    out.extend(pre)
                    out.extend(ss)
            if i == n or ctx.budget <= 0:
                continue
            pre = []
            ctx.hoist.append(pre)
            ss = self.gen_stmt(ctx)
            ctx.hoist.pop()
            out.extend(pre)
            out.extend(ss)
            ctx.budget -= len(ss)
        tail = None
        if final is not None:
            tail = final(ctx, out)
        elif tail_fn is not None:
            pre = []
            ctx.hoist.append(pre)
            tail = tail_fn(ctx)
            ctx.hoist.pop()
            out.extend(pre)
        elif tail_ty is not None:
            pre = []
            ctx.hoist.append(pre)
            tail = self.gen_expr(ctx, tail_ty, 2)
            ctx.hoist.pop()
            out.extend(pre)
        ctx.defers = defers0
        ctx.depth -= 1
        if fresh_scope:
            ctx.scopes.pop()
        return Block(out, tail, label)

    def small_block(self, ctx, tail_ty=None, binds=(), nmax=3, label=None, inject=()):
        n = self.rng.range(0 if tail_ty is not None else 1, nmax) if ctx.depth < 5 and ctx.budget > 0 else (0 if tail_ty is not None else 1)
        return self.gen_block(ctx, n, tail_ty=tail_ty, binds=binds, label=label, inject=inject)

    # ================================================================== statements
    def gen_stmt(self, ctx):
        rng = self.rng
        deep = ctx.depth >= 5 or ctx.budget < 4
        opts = [("decl_scalar", 10), ("assign", 12), ("compound", 6)]
        if not ctx.pure:
            opts += [("print", 14), ("call", 8)]
        else:
            opts += [("decl_scalar", 4)]
        if not deep:
            opts += [("if", 8), ("while", 4), ("loop", 2), ("block", 1), ("shadow", 1)]
            if self.L >= 1:
                opts += [("lblock", 2), ("jump", 5)]
                if not ctx.pure:
                    opts += [("defer", 2)]
        if self.L >= 2:
            opts += [("decl_agg", 6), ("decl_ptr", 3), ("decl_slice", 2), ("ptr_write", 3), ("eq_probe", 3)]
            if not deep:
                opts += [("seq_loop", 3)]
        if self.L >= 3:
            opts += [("decl_sum", 6), ("try", 6)]
            if not deep:
                opts += [("switch", 6), ("guarded_unwrap", 3)]
        if self.L >= 4:
            opts += [("decl_fn", 2)]
        for _ in range(5):
            c = rng.weighted(opts)
            r = getattr(self, "st_" + c)(ctx)
            if r:
                return r
        return self.st_decl_scalar(ctx)

    # ---- declarations
    def gen_init(self, ctx, ty, d=2):
        """initialiser / right-hand side: sometimes an if / labeled block / switch expression"""
        rng = self.rng
        k = self.base(ty)[0]
        if ctx.depth < 5 and ctx.budget > 3 and k in ("int", "bool", "char", "float", "struct", "array") and rng.chance(1, 4):
            r = rng.below(3)
            saved = ctx.targets
            ctx.targets = []
            ctx.in_expr += 1
            try:
                if r == 0:
                    self.use("if_expr")
                    return N("ife", cond=self.gen_bool(ctx, 2), then=self.small_block(ctx, ty, nmax=1), els=self.small_block(ctx, ty, nmax=1), ty=ty)
                if r == 1 and self.L >= 1:
                    return self.block_expr(ctx, ty)
                if r == 2 and self.L >= 3:
                    e = self.switch_node(ctx, ty)
                    if e is not None:
                        self.use("switch_expr")
                        return e
            finally:
                ctx.in_expr -= 1
                ctx.targets = saved
        return self.gen_expr(ctx, ty, d)

    def block_expr(self, ctx, ty):
        """`lbl: { ...; if c { break `lbl v; } ...; tail }"""
        self.use("labeled_block")
        self.use("break_value")
        label = self.fresh("l")
        ctx.targets.append({"kind": "lblock", "label": label, "vty": ty})

        def brk(c):
            return [N("if", cond=self.gen_bool(c, 2), then=Block([N("break", label=label, value=self.gen_expr(c, ty, 1))]), els=None)]
        n = self.rng.range(0, 2)
        b = self.gen_block(ctx, n, tail_ty=ty, label=label, inject=[(self.rng.below(n + 1), brk)])
        ctx.targets.pop()
        return N("blocke", block=b, ty=ty)

    def strong_kind(self, e):
        return e.k in ("var", "field", "index", "deref", "call", "cast", "structlit", "arrlit", "len") or (e.k == "lit" and not e.bare)

    def shadow_name(self, ctx):
        """name of a visible local that may be shadowed (never a loop counter or a parameter)"""
        c = [v.name for v in self.visible(ctx) if v.kind == "local" and v.name not in ctx.deferred_names]
        return self.rng.pick(c) if c else None

    def st_shadow(self, ctx):
        name = self.shadow_name(ctx)
        if name is None:
            return None
        self.use("shadow")
        ty = self.scalar_ty()
        init = self.gen_init(ctx, ty)      # may still read the old binding
        mut = self.rng.chance(1, 2)
        self.declare(ctx, name, ty, mut)
        return [N("decl", name=name, ty=ty, mut=mut, init=init, annotate=True)]

    def st_decl_scalar(self, ctx):
        ty = self.scalar_ty()
        mut = self.rng.chance(7, 10)
        if self.rng.chance(1, 12) and self.base(ty)[0] != "char" or False:
            init = None        # default value
            mut = True
            self.use("default_init")
        else:
            init = self.gen_init(ctx, ty)
        name = self.fresh()
        annotate = True
        if init is not None and self.strong_kind(init) and self.rng.chance(1, 3):
            annotate = False
        self.declare(ctx, name, ty, mut)
        return [N("decl", name=name, ty=ty, mut=mut, init=init, annotate=annotate)]

    def st_decl_agg(self, ctx):
        if not self.agg_types:
            return None
        ty = self.rng.pick(self.agg_types)
        mut = self.rng.chance(3, 4)
        if self.rng.chance(1, 10) and self.defaultable(ty):
            init, mut = None, True
            self.use("default_init")
        else:
            init = self.gen_init(ctx, ty)
        name = self.fresh()
        annotate = not (init is not None and self.strong_kind(init) and self.rng.chance(1, 2))
        self.use("struct" if ty[0] == "struct" else "array")
        self.declare(ctx, name, ty, mut)
        return [N("decl", name=name, ty=ty, mut=mut, init=init, annotate=annotate)]

    def defaultable(self, ty):
        b = self.base(ty)
        if b[0] in ("int", "bool", "float"):
            return True
        if b[0] == "array":
            return self.defaultable(b[1])
        if b[0] == "struct":
            return all(self.defaultable(t) for _, t in self.prog.structs[b[1]])
        return False

    def known_tag(self, e):
        if e.k == "nil":
            return "nil"
        if e.k == "wrap":
            if e.how in ("some", "ok", "err"):
                return e.how
            if e.how == "v2e" and e.e.k == "variantlit":
                return e.e.vname
        return None

    def st_decl_sum(self, ctx):
        if not self.sum_types:
            return None
        ty = self.rng.pick(self.sum_types)
        init = self.gen_expr(ctx, ty, 2)
        mut = self.rng.chance(3, 5)
        name = self.fresh()
        self.declare(ctx, name, ty, mut, known=None if mut else self.known_tag(init))
        return [N("decl", name=name, ty=ty, mut=mut, init=init, annotate=True)]

    def st_decl_ptr(self, ctx):
        to = self.decl_ty({"scalar", "agg"}) if self.rng.chance(3, 4) else self.decl_ty({"sum", "scalar"})
        ty = ("ptr", to, self.rng.chance(3, 5))
        init = self.gen_ptr(ctx, ty)
        if init is None:
            return None
        name = self.fresh()
        mut = self.rng.chance(2, 5)
        self.declare(ctx, name, ty, mut)
        return [N("decl", name=name, ty=ty, mut=mut, init=init, annotate=mut or self.rng.chance(1, 2))]

    def st_decl_slice(self, ctx):
        elem = self.decl_ty({"scalar"}) if self.rng.chance(3, 4) else self.decl_ty({"agg", "scalar"})
        arrs = [v for v in self.visible(ctx) if v.mut and v.kind == "local" and self.base(v.ty)[0] == "array"]
        if arrs and self.rng.chance(2, 3):
            elem = self.base(self.rng.pick(arrs).ty)[1]
        ty = ("slice", elem)
        init, slen = self.gen_slice(ctx, ty)
        if init is None:
            return None
        name = self.fresh()
        mut = self.rng.chance(7, 10)
        self.declare(ctx, name, ty, mut, slen=slen)
        return [N("decl", name=name, ty=ty, mut=mut, init=init, annotate=True)]

    def st_decl_fn(self, ctx):
        if not self.prog.fnaliases:
            return None
        an = self.rng.pick(sorted(self.prog.fnaliases))
        ty = ("fn", an)
        name = self.fresh()
        if self.rng.chance(1, 2):
            lam = self.gen_lambda(ctx, ty)
            self.declare(ctx, name, ty, False)
            return [N("decl", name=name, ty=ty, mut=False, init=lam, annotate=False)]
        init = self.gen_fnval(ctx, ty)
        mut = self.rng.chance(1, 2) and init.k != "lambda"     # `name :: (..) {..};` is the only spelling used for lambdas
        self.declare(ctx, name, ty, mut)
        return [N("decl", name=name, ty=ty, mut=mut, init=init, annotate=init.k != "lambda")]

    def gen_lambda(self, ctx, ty):
        """non-capturing: its body only sees its own parameters and the globals"""
        self.use("lambda")
        ps, ret = self.prog.fnaliases[ty[1]]
        params = [(self.fresh("a"), t, False) for _, t in ps]
        pure = ctx.pure or self.rng.chance(1, 2)
        c2 = Ctx("lambda", ret, pure)
        c2.budget = 5
        c2.depth = 3
        for pn, pt, _ in params:
            self.declare(c2, pn, pt, False, kind="param")
        body = self.gen_block(c2, self.rng.range(0, 2), tail_ty=ret, fresh_scope=False)
        return N("lambda", params=params, ret=ret, body=body, ty=ty, pure=pure)

    # ---- assignments
    def st_assign(self, ctx):
        rng = self.rng
        ps = self.paths(ctx, lambda t: self.base(t)[0] not in ("ptr", "slice", "fn", "variant"), writable=True)
        if not ps:
            return self.st_reassign_ref(ctx)
        if rng.chance(1, 10):
            r = self.st_reassign_ref(ctx)
            if r:
                return r
        # prefer aggregates / sums now and then (whole-value copies)
        aggs = [x for x in ps if self.base(x[1])[0] in ("struct", "array", "enum", "opt", "err")]
        place, ty = rng.pick(aggs) if aggs and rng.chance(1, 3) else rng.pick(ps)
        k = self.base(ty)[0]
        if k == "struct":
            self.use("struct_copy")
        if k == "array":
            self.use("array_copy")
        return [N("assign", place=place, op="=", e=self.safe_rhs(ctx, place, ty, self.gen_init(ctx, ty)))]

    def root_name(self, e):
        while e.k in ("field", "index", "deref", "cast", "unwrap"):
            e = e.base if e.k in ("field", "index") else e.e
        return e.name if e.k == "var" else None

    def mentions(self, e, name, lits):
        """(does e read variable `name`, does e contain an aggregate / variant literal)"""
        found = [False, False]

        def walk(x):
            if isinstance(x, N):
                if x.k == "var" and x.name == name:
                    found[0] = True
                if x.k == "deref" or (x.k in ("field", "index") and x.base.ty[0] in ("ptr", "slice")):
                    found[0] = True      # may alias the destination
                if x.k in ("arrlit", "structlit", "variantlit"):
                    found[1] = True
                for v in x.__dict__.values():
                    walk(v)
            elif isinstance(x, Block):
                for st in x.stmts:
                    walk(st)
                walk(x.tail)
            elif isinstance(x, (list, tuple)):
                for y in x:
                    walk(y)
        walk(e)
        return found

    def safe_rhs(self, ctx, place, ty, rhs):
        """`a = T.[a[1], a[0]]`: a literal that reads the variable it is assigned to is the recorded defect
        'selfref_literal_assign' (the literal is built in place); produced only by programs that opted in,
        otherwise the value goes through a temporary"""
        if self.base(ty)[0] not in ("struct", "array", "enum", "opt", "err"):
            return rhs
        root = self.root_name(place)
        reads, haslit = self.mentions(rhs, root, True)
        if place.k != "var" or self.base(place.ty)[0] == "ptr":
            # through a pointer / into a part: any visible variable may alias the destination
            reads = reads or self.through_ptr(place)
        if not (reads and haslit):
            return rhs
        if self.selfref_literal:
            self.use("selfref_literal_assign")
            return rhs
        v = self.hoist_decl(ctx, ty, rhs, mut=False)
        return var(v)

    def st_reassign_ref(self, ctx):
        """p = ^x / s = arr for a mutable pointer / slice variable (target outlives the variable)"""
        vs = [v for v in self.visible(ctx) if v.mut and v.kind == "local" and self.base(v.ty)[0] in ("ptr", "slice", "fn")]
        if not vs:
            return None
        v = self.rng.pick(vs)
        k = self.base(v.ty)[0]
        if k == "ptr":
            e = self.gen_ptr(ctx, v.ty, min_level=v.level)
        elif k == "slice":
            e, _ = self.gen_slice(ctx, v.ty, want_len=v.slen, min_level=v.level)
        else:
            e = self.gen_fnval(ctx, v.ty)
        if e is None:
            return None
        self.use("ref_reassign")
        return [N("assign", place=var(v), op="=", e=e)]

    def st_compound(self, ctx):
        rng = self.rng
        ps = self.paths(ctx, lambda t: self.base(t)[0] in ("int", "float"), writable=True)
        if not ps:
            return None
        place, ty = rng.pick(ps)
        self.use("compound_assign")
        if self.base(ty)[0] == "float":
            return [N("assign", place=place, op=rng.pick(["+=", "-=", "*="]), e=self.gen_float(ctx, ty, 1))]
        bits, signed = self.info(ty)
        r = rng.below(10)
        if r < 7:
            return [N("assign", place=place, op=rng.pick(ASSIGN_OPS), e=self.gen_int(ctx, ty, 1))]
        if r < 9:
            return [N("assign", place=place, op=rng.pick(["<<=", ">>="]), e=lit(ty, rng.below(bits)))]
        if bits == 128:
            return None
        self.use("div")
        return [N("assign", place=place, op=rng.pick(["/=", "%="]), e=self.safe_divisor(ctx, ty, 1))]

    def st_ptr_write(self, ctx):
        """write through a pointer (deref or auto-deref field) - compound or plain"""
        ps = [(e, t) for e, t in self.paths(ctx, lambda t: self.base(t)[0] in ("int", "bool", "struct", "array"), writable=True) if self.through_ptr(e)]
        if not ps:
            return None
        place, ty = self.rng.pick(ps)
        self.use("ptr_mut_write")
        if self.is_int(ty) and self.rng.chance(1, 2):
            self.use("compound_assign")
            return [N("assign", place=place, op=self.rng.pick(ASSIGN_OPS), e=self.gen_int(ctx, ty, 1))]
        return [N("assign", place=place, op="=", e=self.safe_rhs(ctx, place, ty, self.gen_expr(ctx, ty, 2)))]

    def via_ref(self, e):
        while e.k in ("field", "index", "deref", "unwrap", "cast"):
            if e.k == "deref":
                return True
            nxt = e.base if e.k in ("field", "index") else e.e
            if e.k in ("field", "index") and self.base(nxt.ty)[0] in ("ptr", "slice"):
                return True
            e = nxt
        return False

    def through_ptr(self, e):
        while e.k in ("field", "index"):
            if e.k == "field" and self.base(e.base.ty)[0] == "ptr":
                return True
            e = e.base
        return e.k == "deref"

    # ---- output
    def st_print(self, ctx):
        rng = self.rng
        if rng.chance(1, 8):
            return [N("ev", id=self.new_id())]
        if rng.chance(3, 5):
            ps = self.paths(ctx, self.scalar_printable)
            if ps:
                # deeper designators are the interesting ones
                ps.sort(key=lambda x: -self.depth_of(x[0]))
                e, t = ps[rng.below(max(1, len(ps) // 2))] if rng.chance(2, 3) else rng.pick(ps)
                return [N("print", id=self.new_id(), e=e)]
        ty = self.scalar_ty()
        return [N("print", id=self.new_id(), e=strong(self.gen_expr(ctx, ty, 3)))]

    def depth_of(self, e):
        d = 0
        while e.k in ("field", "index", "deref", "cast", "unwrap"):
            e = e.base if e.k in ("field", "index") else e.e
            d += 1
        return d

    def print_all(self, ctx, e, ty, limit=4):
        """prints of the scalar leaves of the value designated by the (pure, place-like) expression e"""
        out = []
        leaves = []
        self._walk(ctx, Var("_", ty, False), e, ty, False, 3, leaves, self.scalar_printable, False, False)
        self.rng.shuffle(leaves)
        for le, lt in leaves[:limit]:
            out.append(N("print", id=self.new_id(), e=le))
        return out

    # ---- control flow
    def gen_cond(self, ctx):
        """a condition; outside pure functions sometimes `pure && impure_call()` to observe short-circuiting"""
        c = self.gen_bool(ctx, 2)
        if not ctx.pure and self.rng.chance(1, 2):
            fs = [f for f in self.prog.funcs if f.ret == BOOL and not f.pure and not f.rec]
            if fs:
                f = self.rng.pick(fs)
                self.use("short_circuit")
                return N("bin", op=self.rng.pick(["&&", "||"]), a=c, b=self.gen_call(ctx, f, 1), ty=BOOL)
        return c

    def st_if(self, ctx):
        rng = self.rng
        cond = self.gen_cond(ctx)
        then = self.small_block(ctx)
        els = None
        r = rng.below(10)
        if r < 4:
            els = self.small_block(ctx)
        elif r < 6:
            els = N("if", cond=self.gen_bool(ctx, 2), then=self.small_block(ctx), els=self.small_block(ctx) if rng.chance(1, 2) else None)
            self.use("else_if")
        self.use("if")
        return [N("if", cond=cond, then=then, els=els)]

    def loop_bound(self, ctx):
        nl = sum(1 for t in ctx.targets if t["kind"] == "loop")
        if nl == 0:
            return self.rng.pick([1, 2, 3, 3, 4, 5, 7, 10, 16, 33, 64])
        if nl == 1:
            return self.rng.range(1, 5)
        return self.rng.range(1, 2)

    def counted_loop(self, ctx, kind, bound, body_fn=None, counter_ty=None):
        """c : T = 0;  while c < N { c += 1; body }   /   loop { if c >= N { break; } c += 1; body }"""
        rng = self.rng
        cands = [t for t in self.int_focus + [USIZE, T("u8"), T("i32")] if self.info(t)[0] < 128 and bound < (1 << (self.info(t)[0] - 1)) - 1]
        t = counter_ty or rng.pick(cands)
        cname = self.fresh("c")
        self.declare(ctx, cname, t, True, kind="counter")
        cv = N("var", name=cname, ty=t)
        label = self.fresh("l") if rng.chance(1, 2) else None
        ctx.targets.append({"kind": "loop", "label": label, "vty": None})
        inc = N("assign", place=cv, op="+=", e=lit(t, 1))
        if body_fn is not None:
            body = body_fn(cv)
        else:
            body = self.small_block(ctx, nmax=4)
        ctx.targets.pop()
        decl = N("decl", name=cname, ty=t, mut=True, init=lit(t, 0), annotate=True)
        bnd = lit(t, bound)
        if kind == "while":
            self.use("while")
            body.stmts.insert(0, inc)
            return [decl, N("while", cond=N("bin", op="<", a=cv, b=bnd, ty=BOOL), body=body, label=label)]
        self.use("loop")
        guard = N("if", cond=N("bin", op=">=", a=cv, b=bnd, ty=BOOL), then=Block([N("break", label=None, value=None)]), els=None)
        body.stmts[0:0] = [guard, inc]
        return [decl, N("loop", body=body, label=label)]

    def st_while(self, ctx):
        return self.counted_loop(ctx, "while", self.loop_bound(ctx))

    def st_loop(self, ctx):
        return self.counted_loop(ctx, "loop", self.loop_bound(ctx))

    def st_seq_loop(self, ctx):
        """walk an array / slice (also a varargs parameter) with a counter: el = seq[c - 1]"""
        rng = self.rng
        seqs = [v for v in self.visible(ctx) if self.base(v.ty)[0] in ("array", "slice")]
        if not seqs:
            return None
        v = rng.pick(seqs)
        b = self.base(v.ty)
        elem = b[1]
        self.use("seq_loop")

        def body_fn(cv):
            idx = N("bin", op="-", a=cv, b=lit(USIZE, 1), ty=USIZE)
            el = N("index", base=var(v), idx=idx, ty=elem)
            name = self.fresh()
            bind = Var(name, elem, False)
            blk = self.small_block(ctx, binds=[bind], nmax=3)
            blk.stmts.insert(0, N("decl", name=name, ty=elem, mut=False, init=el, annotate=self.rng.chance(1, 2)))
            if v.mut and v.kind == "local" and self.base(elem)[0] in ("int", "bool") and self.rng.chance(1, 2):
                el2 = N("index", base=var(v), idx=N("bin", op="-", a=cv, b=lit(USIZE, 1), ty=USIZE), ty=elem)
                blk.stmts.insert(1, N("assign", place=el2, op="=", e=self.gen_expr(ctx, elem, 1)))
            return blk
        if b[0] == "array":
            return self.counted_loop(ctx, "while", b[2], body_fn, counter_ty=USIZE)
        # slice: the bound is s.len
        t = USIZE
        cname = self.fresh("c")
        self.declare(ctx, cname, t, True, kind="counter")
        cv = N("var", name=cname, ty=t)
        ctx.targets.append({"kind": "loop", "label": None, "vty": None})
        body = body_fn(cv)
        ctx.targets.pop()
        body.stmts.insert(0, N("assign", place=cv, op="+=", e=lit(t, 1)))
        self.use("while")
        self.use("slice")
        return [N("decl", name=cname, ty=t, mut=True, init=lit(t, 0), annotate=True),
                N("while", cond=N("bin", op="<", a=cv, b=N("len", e=var(v), ty=USIZE), ty=BOOL), body=body, label=None)]

    # ---- equality of structs that differ only inside a non-first aggregate member
    def nonfirst_agg_members(self, ty):
        fs = self.prog.structs[self.base(ty)[1]]
        return [(f, t) for f, t in fs[1:] if self.base(t)[0] in ("struct", "array", "enum", "opt", "err")]

    def mini_block(self, ctx, fn):
        pre = []
        ctx.scopes.append([])
        ctx.hoist.append(pre)
        ss = fn()
        ctx.hoist.pop()
        ctx.scopes.pop()
        return Block(pre + ss)

    def mutate_leaf(self, ctx, dst, ty, src):
        """statements that make the part `dst` of a copy differ from the same part `src` of the original in ONE leaf"""
        b = self.base(ty)
        k = b[0]
        rng = self.rng
        if k == "int":
            return [N("assign", place=dst, op="=", e=N("bin", op="+", a=src, b=lit(ty, 1), ty=ty))]
        if k == "bool":
            return [N("assign", place=dst, op="=", e=N("un", op="!", e=src, ty=BOOL))]
        if k == "char":
            u8 = T("u8")
            flip = N("bin", op="&", a=N("bin", op="~", a=N("cast", ty=u8, e=src), b=lit(u8, 1), ty=u8), b=lit(u8, 127), ty=u8)
            return [N("assign", place=dst, op="=", e=N("cast", ty=CHAR, e=flip))]
        if k == "array":
            i = rng.below(b[2])
            return self.mutate_leaf(ctx, N("index", base=dst, idx=lit(USIZE, i), ty=b[1]), b[1], N("index", base=src, idx=lit(USIZE, i), ty=b[1]))
        if k == "struct":
            fs = [(f, t) for f, t in self.prog.structs[b[1]] if self.base(t)[0] != "float"]
            if not fs:
                return None
            f, t = fs[-1] if rng.chance(1, 2) else rng.pick(fs)
            return self.mutate_leaf(ctx, N("field", base=dst, name=f, ty=t), t, N("field", base=src, name=f, ty=t))
        if k in ("opt", "err", "enum"):
            targets = self.sum_targets(ty)
            (t0, tag0), (t1, tag1) = targets[0], targets[1]

            def mk(tag):
                if k == "enum":
                    return self.gen_variant(ctx, ty, 0, vname=tag)
                if tag == "nil":
                    return N("nil", ty=ty)
                inner = b[1] if (k == "opt" or tag == "err") else b[2]
                e = self.sum_inner(ctx, inner, 0)
                return N("wrap", how=tag, e=self.gate_ok_literal(e) if tag == "ok" else e, ty=ty)
            then = self.mini_block(ctx, lambda: [N("assign", place=dst, op="=", e=mk(tag1))])
            els = self.mini_block(ctx, lambda: [N("assign", place=dst, op="=", e=mk(tag0))])
            return [N("if", cond=N("isvar", e=src, target=t0, ty=BOOL), then=then, els=els)]
        return None

    def st_eq_probe(self, ctx):
        """a : S = ..; b := a; [b.<non-first aggregate member>.<leaf> = something else;] print a == b, a != b, if a == b {..}"""
        if ctx.pure or not ctx.hoist or ctx.budget < 6:
            return None
        rng = self.rng
        cands = [t for t in self.agg_types if t[0] == "struct" and self.eq_comparable(t) and self.nonfirst_agg_members(t)]
        if not cands:
            return None
        ty = rng.pick(cands)
        have = [v for v in self.visible(ctx) if v.ty == ty and v.kind in ("local", "param") and v.name not in ctx.frozen]
        a = rng.pick(have) if have and rng.chance(1, 2) else self.hoist_decl(ctx, ty, self.gen_agg(ctx, ty, 1), mut=rng.chance(1, 2))
        bname = self.fresh()
        out = [N("decl", name=bname, ty=ty, mut=True, init=var(a), annotate=rng.chance(1, 2))]
        bv = self.declare(ctx, bname, ty, True)
        self.use("struct_copy")
        self.use("agg_eq")
        self.use("eq_probe")
        if rng.chance(3, 4):
            f, ft = rng.pick(self.nonfirst_agg_members(ty))
            m = self.mutate_leaf(ctx, N("field", base=var(bv), name=f, ty=ft), ft, N("field", base=var(a), name=f, ty=ft))
            if m:
                out.extend(m)
                self.use("eq_probe_differs")
        x, y = (var(a), var(bv)) if rng.chance(1, 2) else (var(bv), var(a))
        out.append(N("print", id=self.new_id(), e=N("bin", op="==", a=x, b=y, ty=BOOL)))
        out.append(N("print", id=self.new_id(), e=N("bin", op="!=", a=y, b=x, ty=BOOL)))
        out.append(N("if", cond=N("bin", op=rng.pick(["==", "!="]), a=x, b=y, ty=BOOL), then=Block([N("ev", id=self.new_id())]), els=Block([N("ev", id=self.new_id())])))
        return out

    def st_block(self, ctx):
        return [N("block", block=self.small_block(ctx))]

    def st_lblock(self, ctx):
        """labeled block statement with a conditional `break `lbl;` inside"""
        self.use("labeled_block")
        label = self.fresh("l")
        ctx.targets.append({"kind": "lblock", "label": label, "vty": None})
        b = self.small_block(ctx, nmax=4, label=label)
        ctx.targets.pop()
        return [N("block", block=b)]

    def st_defer(self, ctx):
        self.use("defer")
        ps = self.paths(ctx, self.scalar_printable, place_only=True, dyn=False)
        ps = [x for x in ps if self.depth_of(x[0]) <= 1]
        if ps and self.rng.chance(2, 3):
            e = self.rng.pick(ps)[0]
            ctx.deferred_names.add(self.root_name(e))      # never shadowed afterwards: which binding would the defer see?
            s = N("print", id=self.new_id(), e=e)
        else:
            s = N("ev", id=self.new_id())
        ctx.defers += 1
        return [N("defer", stmt=s)]

    def st_jump(self, ctx):
        """`if cond { [print]; break / continue / return }` - the jump is the last statement of its block"""
        rng = self.rng
        opts = []
        inner = ctx.targets[-1] if ctx.targets else None
        if inner and inner["kind"] == "loop":
            opts += [("break", 3), ("continue", 3)]
        for t in ctx.targets:
            if t["label"]:
                opts.append((("break_l", t), 2))
                if t["kind"] == "loop":
                    opts.append((("continue_l", t), 3))
        if not ctx.in_expr:
            opts.append(("return", 2 if ctx.targets else 1))
        if not opts:
            return None
        c = rng.weighted(opts)
        pre = []
        if not ctx.pure and rng.chance(1, 2):
            pre.append(N("ev", id=self.new_id()))
        if c == "break":
            self.use("break")
            j = N("break", label=None, value=None)
        elif c == "continue":
            self.use("continue")
            j = N("continue", label=None)
        elif c == "return":
            self.use("early_return")
            b = Block(pre)
            if ctx.ret != VOID:
                hp = []
                ctx.hoist.append(hp)
                ctx.scopes.append([])      # hoisted declarations live inside the if-block
                val = self.ret_value(ctx)
                ctx.scopes.pop()
                ctx.hoist.pop()
                b.stmts = pre + hp
            else:
                val = None
            b.stmts.append(N("return", value=val))
            return [N("if", cond=self.gen_bool(ctx, 2), then=b, els=None)]
        else:
            kind, t = c
            if kind == "break_l":
                self.use("labeled_break")
                val = None
                hp = []
                if t["vty"] is not None:
                    ctx.hoist.append(hp)
                    ctx.scopes.append([])
                    val = self.gen_expr(ctx, t["vty"], 1)
                    ctx.scopes.pop()
                    ctx.hoist.pop()
                    self.use("break_value")
                pre = pre + hp
                j = N("break", label=t["label"], value=val)
            else:
                self.use("labeled_continue")
                j = N("continue", label=t["label"])
        return [N("if", cond=self.gen_bool(ctx, 2), then=Block(pre + [j]), els=None)]

    def ret_value(self, ctx):
        if ctx.fname == "main":
            if self.rng.chance(1, 2):
                bits, signed = self.info(ctx.ret)
                return lit(ctx.ret, self.rng.range(1, 127 if bits == 8 and signed else 255))
        return self.gen_expr(ctx, ctx.ret, 2)

    # ---- sum types
    def sum_scrutinee(self, ctx):
        ps = self.paths(ctx, self.is_sum, dyn=False)
        if ps and self.rng.chance(4, 5):
            return self.rng.pick(ps)
        if not self.sum_types or not ctx.hoist:
            return self.rng.pick(ps) if ps else None
        ty = self.rng.pick(self.sum_types)
        v = self.hoist_decl(ctx, ty, self.gen_expr(ctx, ty, 2), mut=self.rng.chance(1, 2))
        return var(v), ty

    def switch_node(self, ctx, vty):
        """switch over a sum-typed designator; vty None = statement, else every arm yields a value of vty"""
        rng = self.rng
        sc = self.sum_scrutinee(ctx)
        if sc is None:
            return None
        scrut, sty = sc
        b = self.base(sty)
        targets = self.sum_targets(sty)
        order = list(targets)
        rng.shuffle(order)
        default = None
        named = order
        if rng.chance(1, 3) and len(order) > 1:
            named = order[: rng.range(1, len(order) - 1)] if b[0] == "enum" else order[:1]
            self.use("switch_default")
        bind = self.fresh("w")
        arms = []
        # README does not say whether the switch argument is a copy of the payload: unless the program opted in
        # ('scrutinee_write', a recorded finding: the argument aliases the scrutinee), nothing inside the arms
        # writes the scrutinee variable (directly, through a pointer / slice, or by passing ^mut of it)
        if not self.scrutinee_write and self.via_ref(scrut):
            # reached through a pointer / slice: the storage has other names, so switch over an immutable copy
            if not ctx.hoist:
                return None
            scrut = var(self.hoist_decl(ctx, sty, scrut, mut=False))
        root = self.root_name(scrut)
        froze = False
        if root is not None and not self.scrutinee_write:
            ctx.frozen.append(root)
            froze = True
        elif root is not None:
            self.use("scrutinee_write_allowed")
        try:
            return self._switch_arms(ctx, vty, scrut, sty, b, order, named, bind)
        finally:
            if froze:
                ctx.frozen.pop()

    def _switch_arms(self, ctx, vty, scrut, sty, b, order, named, bind):
        rng = self.rng
        arms = []
        default = None
        for target, tag in named:
            bt = self.bind_ty(sty, target)
            if bt is not None and target[0] == "type" and self.base(bt)[0] == "array":
                # recorded defect 'array_arm_binding': using the value bound by an arm `[N]T => ..` panics the checker
                if self.array_arm_binding:
                    self.use("array_arm_binding")
                else:
                    bt = None
            binds = [Var(bind, bt, False)] if bt is not None else []
            arms.append((target, self.arm_block(ctx, vty, binds)))
        if len(named) < len(order):
            default = self.arm_block(ctx, vty, [])
        self.use({"enum": "switch_enum", "opt": "switch_opt", "err": "switch_err"}[b[0]])
        return N("switch", scrut=scrut, bind=bind, arms=arms, default=default, ty=vty if vty is not None else VOID,
                 full_names=b[0] == "enum" and rng.chance(1, 3))

    def arm_block(self, ctx, vty, binds):
        if vty is None:
            def first(c):
                if c.pure:
                    return []
                if binds:
                    return self.print_all(c, var(binds[0]), binds[0].ty, limit=2)
                return [N("ev", id=self.new_id())]
            n = self.rng.range(0, 2) if ctx.depth < 5 else 0
            return self.gen_block(ctx, n, binds=binds, inject=[(0, first)])
        return self.gen_block(ctx, self.rng.range(0, 1) if ctx.depth < 5 else 0, tail_ty=vty, binds=binds)

    def bind_ty(self, sty, target):
        b = self.base(sty)
        if target[0] == "nil":
            return None
        if target[0] == "variant":
            if self.prog.variant_payload(("variant", b[1], target[1])) is None:
                return None
            return ("variant", b[1], target[1])
        return target[1]

    def st_switch(self, ctx):
        e = self.switch_node(ctx, None)
        if e is None:
            return None
        return [N("expr", e=e)]

    def st_guarded_unwrap(self, ctx):
        """if #is_variant(x, T) { y := #unwrap(x, T); ... }"""
        ps = self.paths(ctx, self.is_sum, dyn=False)
        if not ps:
            return None
        e, sty = self.rng.pick(ps)
        cands = [(t, tag) for t, tag in self.sum_targets(sty) if self.bind_ty(sty, t) is not None]
        if not cands:
            return None
        target, tag = self.rng.pick(cands)
        bt = self.bind_ty(sty, target)
        self.use("unwrap")
        self.use("is_variant")
        name = self.fresh()
        explicit = not (self.base(sty)[0] == "opt" and self.rng.chance(1, 2))
        uw = N("unwrap", e=e, target=target, explicit=explicit, ty=bt)
        bind = Var(name, bt, False)
        blk = self.small_block(ctx, binds=[bind], nmax=2)
        pre = [N("decl", name=name, ty=bt, mut=False, init=uw, annotate=False)]
        if not ctx.pure:
            pre.extend(self.print_all(ctx, var(bind), bt, limit=2))
        blk.stmts = pre + blk.stmts
        return [N("if", cond=N("isvar", e=e, target=target, ty=BOOL), then=blk, els=None)]

    def st_try(self, ctx):
        """x := <optional / error union>.try;   inside a function that returns an optional / error union"""
        rb = self.base(ctx.ret)
        if rb[0] not in ("opt", "err") or ctx.in_expr:
            return None
        is_err_of = lambda t: self.base(t)[0] == "err" and self.base(t)[1] == rb[1]
        if rb[0] == "opt":
            # `.try` on E!T inside a function returning ?E hands the error back as a present value
            ok = lambda t: self.base(t)[0] == "opt" or is_err_of(t)
        else:
            ok = is_err_of
        src = None
        fs = [f for f in self.prog.funcs if ok(f.ret) and (f.pure or not ctx.pure) and not f.rec]
        ps = self.paths(ctx, ok, dyn=False)
        if rb[0] == "opt":
            # prefer the mixed combination when it is available
            fe = [f for f in fs if is_err_of(f.ret)]
            pe = [x for x in ps if is_err_of(x[1])]
            if (fe or pe) and self.rng.chance(3, 4):
                fs, ps = fe, pe
        if fs and (not ps or self.rng.chance(1, 2)):
            src = self.gen_call(ctx, self.rng.pick(fs), 1)
        elif ps:
            src = self.rng.pick(ps)[0]
        if src is None:
            if not ctx.hoist:
                return None
            u = self.scalar_ty()
            if rb[0] == "opt" and (self.base(rb[1])[0] not in ("enum", "struct", "bool") or u == rb[1] or self.rng.chance(1, 3)):
                t = ("opt", u)
            elif u == rb[1]:
                return None
            else:
                t = ("err", rb[1], u)
            src = var(self.hoist_decl(ctx, t, self.gen_expr(ctx, t, 1), mut=self.rng.chance(1, 2)))
        sb = self.base(src.ty)
        pt = sb[1] if sb[0] == "opt" else sb[2]
        self.use("try_opt" if sb[0] == "opt" else "try_err")
        if sb[0] == "err" and rb[0] == "opt":
            self.use("try_err_into_opt")
        name = self.fresh()
        v = self.declare(ctx, name, pt, False)
        out = [N("decl", name=name, ty=pt, mut=False, init=N("try", e=src, ty=pt, into=rb[0]), annotate=self.rng.chance(1, 2))]
        if not ctx.pure:
            out.append(N("ev", id=self.new_id()))
        return out

    # ---- calls
    def gen_arg(self, ctx, pt, d):
        k = self.base(pt)[0]
        if k == "ptr":
            return self.gen_ptr(ctx, pt)
        if k == "slice":
            if self.rng.chance(1, 2):
                e = self.pick_path(ctx, pt, dyn=False)
                if e is not None:
                    return e
            return self.gen_slice(ctx, pt)[0]
        if k == "fn":
            return self.gen_fnval(ctx, pt)
        return self.gen_expr(ctx, pt, d)

    def gen_call(self, ctx, f, d):
        rng = self.rng
        self.called.add(f.name)
        groups = []
        first_va = True
        for i, (pn, pt, va) in enumerate(f.params):
            if va:
                lo = 0
                more = any(not va2 for _, _, va2 in f.params[i + 1:])
                if more and not self.empty_vararg_first:
                    lo = 1      # an empty varargs group followed by another parameter is the recorded defect 'empty_vararg_first'
                n = rng.range(lo, 4)
                if getattr(f, "padded_va", None) == pn:
                    n = rng.range(2, 4)       # the callee reads elements at index >= 1
                if more and n == 0:
                    self.use("empty_vararg_first")
                groups.append([self.gen_expr(ctx, pt, d) for _ in range(n)])
            elif f.rec and i == 0:
                groups.append(lit(pt, rng.range(0, 5)))
            else:
                groups.append(self.gen_arg(ctx, pt, d))
        return N("call", fn=N("var", name=f.name, ty=VOID), groups=groups, ty=f.ret)

    def call_stmt(self, ctx, f):
        """statement-level call: result ignored, bound, or printed"""
        call = self.gen_call(ctx, f, 2)
        if f.ret == VOID:
            return [N("expr", e=call)]
        name = self.fresh()
        v = self.declare(ctx, name, f.ret, False)
        out = [N("decl", name=name, ty=f.ret, mut=False, init=call, annotate=self.rng.chance(1, 2))]
        if not ctx.pure:
            if self.is_sum(f.ret):
                out.extend(self.print_sum(ctx, v))
            else:
                out.extend(self.print_all(ctx, var(v), f.ret, limit=3))
        return out

    def print_sum(self, ctx, v):
        """observe which variant a sum value holds: one #is_variant print per variant"""
        out = []
        self.use("is_variant")
        for target, tag in self.sum_targets(v.ty)[:3]:
            out.append(N("print", id=self.new_id(), e=N("isvar", e=var(v), target=target, ty=BOOL)))
        out.extend(self.print_payloads(ctx, var(v), v.ty))
        return out

    def print_payloads(self, ctx, e, sty, limit=3):
        """if #is_variant(e, T) { prints of the leaves of #unwrap(e, T) }  for every variant that has a payload"""
        out = []
        for target, tag in self.sum_targets(sty)[:4]:
            bt = self.bind_ty(sty, target)
            if bt is None:
                continue
            explicit = not (self.base(sty)[0] == "opt" and self.rng.chance(1, 2))
            uw = N("unwrap", e=e, target=target, explicit=explicit, ty=bt)
            prints = self.print_all(ctx, uw, bt, limit=limit)
            if prints:
                self.use("unwrap")
                out.append(N("if", cond=N("isvar", e=e, target=target, ty=BOOL), then=Block(prints), els=None))
        return out

    def st_call(self, ctx):
        rng = self.rng
        fs = [f for f in self.prog.funcs if (f.pure or not ctx.pure)]
        fnvars = self.paths(ctx, lambda t: t[0] == "fn", dyn=False)
        if fnvars and not ctx.pure and (not fs or rng.chance(1, 3)):
            e, t = rng.pick(fnvars)
            ps, ret = self.prog.fnaliases[t[1]]
            self.use("fnptr_call")
            call = N("call", fn=e, groups=[self.gen_expr(ctx, pt, 2) for _, pt in ps], ty=ret)
            name = self.fresh()
            self.declare(ctx, name, ret, False)
            return [N("decl", name=name, ty=ret, mut=False, init=call, annotate=True), N("print", id=self.new_id(), e=N("var", name=name, ty=ret))]
        if not fs:
            return None
        uncalled = [f for f in fs if f.name not in self.called]
        f = rng.pick(uncalled) if uncalled and rng.chance(2, 3) else rng.pick(fs)
        return self.call_stmt(ctx, f)

    # ---- planned runtime fault
    def gen_fault_stmts(self, ctx):
        """one statement that ends in a language-defined runtime fault when it is executed"""
        rng = self.rng
        self.fault_done = True
        kind = self.fault
        out = []
        if not ctx.pure:
            out.append(N("ev", id=self.new_id()))
        big = lambda n: N("cast", ty=USIZE, e=N("opaque", e=lit(I64, rng.pick([n, n + 1, n + 7, 1000, 1 << 33])), ty=I64))
        if kind == "index_array":
            arrs = self.paths(ctx, lambda t: self.base(t)[0] == "array", dyn=False)
            if arrs and rng.chance(2, 3):
                e, t = rng.pick(arrs)
            else:
                t = ("array", self.scalar_ty(), rng.range(1, 5))
                e, t = var(self.hoist_decl(ctx, t, self.gen_agg(ctx, t, 1), mut=True)), t
            self.use("fault_index_array")
            bad = N("index", base=e, idx=big(self.base(t)[2]), ty=self.base(t)[1])
        elif kind == "index_slice":
            sl = [v for v in self.visible(ctx) if self.base(v.ty)[0] == "slice"]
            if sl and rng.chance(2, 3):
                v = rng.pick(sl)
                e, elem, n = var(v), self.base(v.ty)[1], v.slen or 4
            else:
                elem = self.scalar_ty()
                se, n = self.gen_slice(ctx, ("slice", elem))
                v = self.hoist_decl(ctx, ("slice", elem), se, mut=False, slen=n)
                e = var(v)
            self.use("fault_index_slice")
            bad = N("index", base=e, idx=N("cast", ty=USIZE, e=N("opaque", e=lit(I64, rng.pick([1000, n + 100, 1 << 33])), ty=I64)), ty=elem)
        else:
            self.use("fault_unwrap")
            self.use("unwrap")
            cands = [v for v in self.visible(ctx) if v.known is not None and self.is_sum(v.ty)]
            v = rng.pick(cands) if cands and rng.chance(1, 2) else None
            if v is None:
                if not self.sum_types:
                    self.sum_types.append(("opt", self.scalar_ty()))
                ty = rng.pick(self.sum_types)
                init = self.gen_expr(ctx, ty, 1)
                for _ in range(6):
                    if self.known_tag(init) is not None:
                        break
                    init = self.gen_agg(ctx, ty, 1)
                if self.known_tag(init) is None:
                    return out
                v = self.hoist_decl(ctx, ty, init, mut=False, known=self.known_tag(init))
            wrong = [(t, tag) for t, tag in self.sum_targets(v.ty) if tag != v.known and t[0] != "nil"]
            if not wrong:
                return out
            target, tag = rng.pick(wrong)
            bt = self.bind_ty(v.ty, target)
            bad = N("unwrap", e=var(v), target=target, explicit=True, ty=bt if bt is not None else VOID)
            name = self.fresh()
            out.append(N("decl", name=name, ty=bad.ty, mut=False, init=bad, annotate=False) if bt is not None else N("expr", e=bad))
            if not ctx.pure:
                out.append(N("ev", id=self.new_id()))
            return out
        if self.scalar_printable(bad.ty) and not ctx.pure:
            out.append(N("print", id=self.new_id(), e=bad))
        else:
            out.append(N("decl", name=self.fresh(), ty=bad.ty, mut=False, init=bad, annotate=False))
        if not ctx.pure:
            out.append(N("ev", id=self.new_id()))
        return out


def generate(rng, layer=4):
    g = Gen(rng, layer)
    return g.gen_program()
