/* runtime linked into generated capy programs: typed, event-tagged printing that does not
 * depend on capy's own formatter, and a memory watch dumped at exit (also after exit(1) faults) */
#include <stdint.h>
#include <stdio.h>
#include <stdlib.h>
#include <string.h>

static int vr_inited = 0;
#define VR_MAX_WATCH 64
static struct { const unsigned char *p; uint64_t len; int64_t id; } vr_watch_tab[VR_MAX_WATCH];
static int vr_nwatch = 0;

static void vr_dump_watches(void) {
    for (int i = 0; i < vr_nwatch; i++) {
        printf("W %lld ", (long long)vr_watch_tab[i].id);
        for (uint64_t k = 0; k < vr_watch_tab[i].len; k++) printf("%02x", vr_watch_tab[i].p[k]);
        printf("\n");
    }
    fflush(stdout);
}

static void vr_init(void) {
    if (!vr_inited) {
        vr_inited = 1;
        setvbuf(stdout, NULL, _IOFBF, 1 << 16);
        atexit(vr_dump_watches);
    }
}

/* event marker */
void vr_ev(int64_t id) { vr_init(); printf("E %lld\n", (long long)id); }
/* tagged values */
void vr_i64(int64_t id, int64_t v) { vr_init(); printf("I %lld %lld\n", (long long)id, (long long)v); }
void vr_u64(int64_t id, uint64_t v) { vr_init(); printf("U %lld %llu\n", (long long)id, (unsigned long long)v); }
void vr_hex128(int64_t id, uint64_t lo, uint64_t hi) { vr_init(); printf("H %lld %016llx%016llx\n", (long long)id, (unsigned long long)hi, (unsigned long long)lo); }
void vr_f32bits(int64_t id, float v) { vr_init(); uint32_t b; memcpy(&b, &v, 4); printf("F %lld %08x\n", (long long)id, b); }
void vr_f64bits(int64_t id, double v) { vr_init(); uint64_t b; memcpy(&b, &v, 8); printf("D %lld %016llx\n", (long long)id, (unsigned long long)b); }
void vr_bool(int64_t id, uint8_t v) { vr_init(); printf("B %lld %u\n", (long long)id, (unsigned)v); }
void vr_str(int64_t id, const char *s) { vr_init(); printf("S %lld %s\n", (long long)id, s); }
/* raw bytes of an object */
void vr_bytes(int64_t id, const unsigned char *p, uint64_t len) {
    vr_init();
    printf("X %lld ", (long long)id);
    for (uint64_t k = 0; k < len; k++) printf("%02x", p[k]);
    printf("\n");
}
/* register a memory range that is dumped when the process exits */
void vr_watch(int64_t id, const unsigned char *p, uint64_t len) {
    vr_init();
    if (vr_nwatch < VR_MAX_WATCH) { vr_watch_tab[vr_nwatch].p = p; vr_watch_tab[vr_nwatch].len = len; vr_watch_tab[vr_nwatch].id = id; vr_nwatch++; }
}
void vr_flush(void) { fflush(stdout); }
/* run-time parameters of one execution (set by the harness through the environment) */
int64_t vr_sel(void) { const char *s = getenv("VR_SEL"); return s ? atoll(s) : 0; }
int64_t vr_arg(void) { const char *s = getenv("VR_ARG"); return s ? atoll(s) : 0; }
/* opaque source of runtime values so that nothing is folded at compile time */
int64_t vr_opaque_i64(int64_t v) { return v; }
uint64_t vr_opaque_u64(uint64_t v) { return v; }
