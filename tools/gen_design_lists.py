#!/usr/bin/env python3
"""fills the generated lists of DESIGN.md (sections 10.3, 10.4, 11) from known_findings.json and seeded/*/meta.json"""
import glob
import json
import os
import re

V = os.path.dirname(os.path.dirname(os.path.abspath(__file__)))


def fill(s, tag, body):
    a, b = f"<!-- {tag}-BEGIN -->", f"<!-- {tag}-END -->"
    return s[:s.index(a) + len(a)] + "\n" + body + "\n" + s[s.index(b):]


def main():
    k = json.load(open(os.path.join(V, "known_findings.json")))
    fixed = []
    for f in k["fixed"]:
        parts = f.split(" ")
        fixed.append(f"* `{parts[2]}` ({parts[1].replace('property=', '')}) " + " ".join(parts[3:]))
    kf = []
    for f in k["findings"]:
        props = ", ".join([f["property"]] + f.get("properties", []))
        kf.append(f"* **{f['id']}** ({props}): {f['what']}" + (f" — *why not repaired:* {f['why_not_fixed']}" if f.get("why_not_fixed") else ""))
    rows = ["| id | property | what the change does | needs to manifest | caught by (quick) | caught by (thorough only) |", "|---|---|---|---|---|---|"]
    for m in sorted(glob.glob(os.path.join(V, "seeded", "*", "meta.json"))):
        j = json.load(open(m))
        rows.append("| {} | {} | {} | {} | {} | {} |".format(
            j.get("id", os.path.basename(os.path.dirname(m))), j.get("property", ""), j.get("summary", "").replace("|", "/"),
            j.get("needs", "").replace("|", "/"), ", ".join(j.get("caught_by_quick", [])) or "-", ", ".join(j.get("caught_by_thorough", [])) or "-"))
    man = json.load(open(os.path.join(V, "MANIFEST.json")))
    st = ["| property | engine | deciding technique (MANIFEST) | last committed evidence: tier, evaluations / distinct non-trivial, wall |", "|---|---|---|---|"]
    for c in man["checks"]:
        ev_p = os.path.join(V, "evidence", c["property_id"] + ".json")
        ev = json.load(open(ev_p)) if os.path.exists(ev_p) else None
        evs = f"{ev['tier']}, {ev['coverage']['evaluations']} / {ev['coverage']['distinct_nontrivial']}, {ev['wall_s']} s" if ev else "-"
        st.append(f"| {c['property_id']} | {c['engine']} | {c['technique'].replace('|', '/')} | {evs} |")
    p = os.path.join(V, "DESIGN.md")
    s = open(p).read()
    if "<!-- STATUS-TABLE-BEGIN -->" in s:
        s = fill(s, "STATUS-TABLE", "\n".join(st))
    s = fill(s, "FIXED-LIST", "\n".join(fixed))
    s = fill(s, "KF-LIST", "\n".join(kf))
    s = fill(s, "SEEDED-TABLE", "\n".join(rows))
    open(p, "w").write(s)
    print(f"DESIGN.md lists: {len(fixed)} fixed, {len(kf)} findings, {len(rows) - 2} seeded")


if __name__ == "__main__":
    main()
