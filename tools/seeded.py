#!/usr/bin/env python3
"""Confirm and register a seeded change (self-test of the machinery).

  tools/seeded.py add <src dir with patch.diff, demo/, NOTES.md> <id> <property> "<summary>" "<needs>" [--checks C11,C10] [--tier quick]
  tools/seeded.py eval <id> [--checks ...] [--tier quick|thorough]     re-evaluates a registered change and updates meta.json
  tools/seeded.py applies                                             checks that every registered patch still applies to /repo HEAD

Everything happens in the scratch worktree /tmp/evalrepo and the sandbox /tmp/evalsb (never in /repo, never in /verif/evidence):
  1. the patch is applied to a checkout of /repo's HEAD, the release CLI is built               -> "builds"
  2. demo/run.sh <patched cli> <mod dir> must exit 1 (property violated)                         -> "demo_fails_with_change"
  3. cargo test --workspace in the patched worktree must pass                                   -> "tests_pass" (+ counts)
  4. demo/run.sh with the unchanged CLI (/verif/target/cli, built from /repo) must exit 0       -> "demo_passes_without_change"
  5. the named checks run against the patched tree (VERIF_SANDBOX); exit 1 = caught
"""
import json
import os
import re
import shutil
import subprocess
import sys
import time

V = os.path.dirname(os.path.dirname(os.path.abspath(__file__)))
EVALREPO = "/tmp/evalrepo"
SB = "/tmp/evalsb"
ENV = dict(os.environ, CARGO_NET_OFFLINE="true", CARGO_TERM_COLOR="never")


def sh(cmd, cwd=None, env=None, timeout=7200):
    p = subprocess.run(cmd, cwd=cwd, env=env or ENV, stdout=subprocess.PIPE, stderr=subprocess.STDOUT, text=True, timeout=timeout)
    return p.returncode, p.stdout


def prepare(patch):
    if not os.path.isdir(EVALREPO):
        rc, out = sh(["git", "-C", "/repo", "worktree", "add", "--detach", EVALREPO, "HEAD", "-q"])
        assert rc == 0, out
    head = sh(["git", "-C", "/repo", "rev-parse", "HEAD"])[1].strip()
    sh(["git", "-C", EVALREPO, "checkout", "-q", "--", "."])
    rc, out = sh(["git", "-C", EVALREPO, "checkout", "-q", "--detach", head])
    assert rc == 0, out
    if patch:
        rc, out = sh(["git", "-C", EVALREPO, "apply", patch])
        if rc != 0:
            print("patch does not apply:", out)
            return None
    return head


def build_cli():
    env = dict(ENV, CARGO_TARGET_DIR=os.path.join(SB, "target", "cli"))
    env.pop("RUSTFLAGS", None)
    rc, out = sh(["cargo", "build", "--release", "-p", "capy", "--offline"], cwd=EVALREPO, env=env)
    return rc == 0, out[-1500:], os.path.join(SB, "target", "cli", "release", "capy")


def run_demo(demo_dir, cli, mod):
    tmp = os.path.join(SB, "demo_run")
    shutil.rmtree(tmp, ignore_errors=True)
    shutil.copytree(demo_dir, tmp)
    rc, out = sh(["sh", os.path.join(tmp, "run.sh"), cli, mod], cwd=tmp, timeout=600)
    shutil.rmtree(tmp, ignore_errors=True)
    return rc, out[-1500:]


def run_tests():
    env = dict(ENV, CARGO_TARGET_DIR=os.path.join(SB, "target", "test"))
    env.pop("RUSTFLAGS", None)
    rc, out = sh(["cargo", "test", "--workspace", "--no-fail-fast", "--offline"], cwd=EVALREPO, env=env)
    passed = sum(int(m) for m in re.findall(r"test result: \w+\. (\d+) passed", out))
    failed = sum(int(m) for m in re.findall(r"test result: \w+\. \d+ passed; (\d+) failed", out))
    return rc == 0 and failed == 0, passed, failed, out[-800:] if rc != 0 else ""


def run_checks(checks, tier):
    res = {}
    for cid in checks:
        t0 = time.time()
        env = dict(ENV, CAPY_REPO=EVALREPO, VERIF_SANDBOX=SB)
        rc, out = sh([os.path.join(V, "check"), cid, "--tier", tier], cwd=V, env=env)
        first = ""
        lines = out.splitlines()
        for i, l in enumerate(lines):
            if l.startswith("VIOLATION"):
                first = (lines[i + 1].strip() if i + 1 < len(lines) else "")[:240]
                break
        res[cid] = {"rc": rc, "wall_s": round(time.time() - t0), "first_violation": first,
                    "summary": next((l for l in lines if l.startswith(("OK ", "INCONCLUSIVE"))), "")[:200]}
        print(f"   {cid} ({tier}): rc={rc} {res[cid]['wall_s']}s {first[:160]}", flush=True)
    return res


def evaluate(sdir, checks, tier, confirm=True):
    meta_p = os.path.join(sdir, "meta.json")
    meta = json.load(open(meta_p))
    patch = os.path.join(sdir, "patch.diff")
    head = prepare(patch)
    if head is None:
        meta["applies_to_head"] = False
        json.dump(meta, open(meta_p, "w"), indent=1)
        return meta
    meta["applies_to_head"] = True
    meta["evaluated_at_repo_head"] = head[:7]
    ok, log, cli = build_cli()
    meta["builds"] = ok
    print(f" build: {ok}", flush=True)
    if not ok:
        print(log)
        json.dump(meta, open(meta_p, "w"), indent=1)
        prepare(None)
        return meta
    if confirm:
        rc, out = run_demo(os.path.join(sdir, "demo"), cli, EVALREPO)
        meta["demo_fails_with_change"] = rc == 1
        meta["demo_output_with_change"] = out[-600:]
        print(f" demo with change: rc={rc}", flush=True)
        ok, passed, failed, tail = run_tests()
        meta["tests_pass"] = ok
        meta["tests_passed"] = passed
        meta["tests_failed"] = failed
        print(f" tests: ok={ok} passed={passed} failed={failed} {tail}", flush=True)
        rc0, out0 = run_demo(os.path.join(sdir, "demo"), os.path.join(V, "target", "cli", "release", "capy"), "/repo")
        meta["demo_passes_without_change"] = rc0 == 0
        print(f" demo without change: rc={rc0}", flush=True)
    res = run_checks(checks, tier)
    key = "caught_by_quick" if tier == "quick" else "caught_by_thorough"
    caught = set(meta.get(key, []))
    missed = set(meta.get("missed_by_" + tier, []))
    for cid, r in res.items():
        if r["rc"] == 1:
            caught.add(cid)
            missed.discard(cid)
        else:
            caught.discard(cid)
            missed.add(cid)
    meta[key] = sorted(caught)
    meta["missed_by_" + tier] = sorted(missed)
    meta.setdefault("runs", []).append({"tier": tier, "repo_head": head[:7], "verif_commit": sh(["git", "-C", V, "rev-parse", "--short", "HEAD"])[1].strip(),
                                        "results": res})
    meta["ran"] = "tools/seeded.py (patch applied to a scratch worktree of /repo HEAD, release CLI + cargo test --workspace, demo/run.sh with and without the change, then ./check <id> with CAPY_REPO/VERIF_SANDBOX pointing at the patched tree)"
    json.dump(meta, open(meta_p, "w"), indent=1)
    prepare(None)
    return meta


def main():
    import fcntl
    lock = open("/tmp/evalrepo.lock", "w")
    fcntl.flock(lock, fcntl.LOCK_EX)      # /tmp/evalrepo and /tmp/evalsb are shared by all self-test tools: one user at a time
    a = sys.argv[1:]
    opts = {"--checks": None, "--tier": "quick"}
    pos = []
    i = 0
    while i < len(a):
        if a[i] in opts:
            opts[a[i]] = a[i + 1]
            i += 2
        else:
            pos.append(a[i])
            i += 1
    cmd = pos[0]
    if cmd == "add":
        src, sid, prop, summary, needs = pos[1:6]
        sdir = os.path.join(V, "seeded", sid)
        shutil.rmtree(sdir, ignore_errors=True)
        os.makedirs(sdir)
        shutil.copyfile(os.path.join(src, "patch.diff"), os.path.join(sdir, "patch.diff"))
        shutil.copytree(os.path.join(src, "demo"), os.path.join(sdir, "demo"))
        if os.path.exists(os.path.join(src, "NOTES.md")):
            shutil.copyfile(os.path.join(src, "NOTES.md"), os.path.join(sdir, "NOTES.md"))
        json.dump({"id": sid, "property": prop, "summary": summary, "needs": needs, "author": "fresh sub-agent given only the property text and a scratch worktree"},
                  open(os.path.join(sdir, "meta.json"), "w"), indent=1)
        checks = (opts["--checks"] or prop).split(",")
        print(f"== {sid}")
        m = evaluate(sdir, checks, opts["--tier"])
        good = m.get("builds") and m.get("demo_fails_with_change") and m.get("tests_pass") and m.get("demo_passes_without_change")
        print(f"== {sid}: confirmed={bool(good)} caught_by_quick={m.get('caught_by_quick')}")
        if not good:
            print("   NOT CONFIRMED - remove seeded/%s unless the reason is understood" % sid)
    elif cmd == "eval":
        sid = pos[1]
        sdir = os.path.join(V, "seeded", sid)
        meta = json.load(open(os.path.join(sdir, "meta.json")))
        checks = (opts["--checks"] or meta["property"]).split(",")
        print(f"== {sid}")
        m = evaluate(sdir, checks, opts["--tier"], confirm=False)
        print(f"== {sid}: caught_by_quick={m.get('caught_by_quick')} caught_by_thorough={m.get('caught_by_thorough')}")
    elif cmd == "applies":
        bad = 0
        for sid in sorted(os.listdir(os.path.join(V, "seeded"))):
            p = os.path.join(V, "seeded", sid, "patch.diff")
            if os.path.exists(p):
                rc, out = sh(["git", "-C", "/repo", "apply", "--check", p])
                print(sid, "applies" if rc == 0 else "DOES NOT APPLY: " + out.strip()[:200])
                bad += rc != 0
        sys.exit(1 if bad else 0)


if __name__ == "__main__":
    main()
