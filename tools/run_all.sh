#!/bin/sh
# runs every registered check's quick (or $1) tier sequentially, prints a one-line summary per check
cd "$(dirname "$0")/.."
tier=${1:-quick}
mkdir -p work/logs
for id in $(python3 -c "import json;print(' '.join(c['property_id'] for c in json.load(open('MANIFEST.json'))['checks']))"); do
  s=$(date +%s)
  ./check $id --tier $tier > work/logs/$id.$tier.log 2>&1
  rc=$?
  e=$(date +%s)
  echo "$id rc=$rc $((e-s))s $(grep -c '^KNOWN-FINDING' work/logs/$id.$tier.log) kf | $(grep '^OK\|^VIOLATION\|^INCONCLUSIVE' work/logs/$id.$tier.log | head -2 | cut -c1-160 | tr '\n' ' ')"
done
