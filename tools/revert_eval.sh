#!/bin/sh
# usage: tools/revert_eval.sh <fix commit of /repo> <tier> <Cxx> [...]
# Re-introduces a repaired defect in the scratch worktree (git revert --no-commit of one fix: commit) and runs the given
# checks against it in the sandbox: a check that was strengthened after the repair must still catch the original defect.
set -u
exec 9>/tmp/evalrepo.lock; flock 9   # /tmp/evalrepo and /tmp/evalsb are shared: one user at a time
V="$(cd "$(dirname "$0")/.." && pwd)"
commit="$1"; tier="$2"; shift 2
[ -d /tmp/evalrepo ] || git -C /repo worktree add --detach /tmp/evalrepo HEAD -q || exit 2
git -C /tmp/evalrepo checkout -q -- . ; git -C /tmp/evalrepo checkout -q --detach "$(git -C /repo rev-parse HEAD)" || exit 2
git -C /tmp/evalrepo revert --no-commit "$commit" >/dev/null 2>&1 || { echo "revert of $commit conflicts"; git -C /tmp/evalrepo revert --abort 2>/dev/null; git -C /tmp/evalrepo checkout -q -- .; exit 2; }
mkdir -p /tmp/evalsb
for id in "$@"; do
  s=$(date +%s)
  (cd "$V" && CAPY_REPO=/tmp/evalrepo VERIF_SANDBOX=/tmp/evalsb ./check "$id" --tier "$tier" > /tmp/evalsb/$id.log 2>&1); rc=$?
  e=$(date +%s)
  echo "revert $commit: $id rc=$rc $((e-s))s | $(grep -A1 '^VIOLATION' /tmp/evalsb/$id.log | sed -n 2p | cut -c1-200)"
done
git -C /tmp/evalrepo revert --abort 2>/dev/null; git -C /tmp/evalrepo reset -q --hard HEAD
