#!/bin/sh
# usage: tools/seeded_eval.sh <patch.diff> <tier> <Cxx> [<Cyy> ...]
# Applies a seeded change to a scratch worktree of /repo (never to /repo itself), runs the given checks against it in a
# sandbox (VERIF_SANDBOX: own build output, work, evidence, replay), prints one line per check, and undoes the change.
# The scratch worktree /tmp/evalrepo and sandbox /tmp/evalsb are kept between calls for incremental builds;
# `tools/seeded_eval.sh --clean` removes both.
set -u
exec 9>/tmp/evalrepo.lock; flock 9   # /tmp/evalrepo and /tmp/evalsb are shared: one user at a time
V="$(cd "$(dirname "$0")/.." && pwd)"
if [ "$1" = "--clean" ]; then
  git -C /repo worktree remove --force /tmp/evalrepo 2>/dev/null; rm -rf /tmp/evalrepo /tmp/evalsb; git -C /repo worktree prune; exit 0
fi
patch="$1"; tier="$2"; shift 2
if [ ! -d /tmp/evalrepo ]; then git -C /repo worktree add --detach /tmp/evalrepo HEAD -q || exit 2; fi
git -C /tmp/evalrepo checkout -q --detach "$(git -C /repo rev-parse HEAD)" || exit 2
git -C /tmp/evalrepo checkout -q -- . 
if [ "$patch" != "none" ]; then git -C /tmp/evalrepo apply "$patch" || { echo "patch does not apply"; exit 2; }; fi
mkdir -p /tmp/evalsb
for id in "$@"; do
  s=$(date +%s)
  (cd "$V" && CAPY_REPO=/tmp/evalrepo VERIF_SANDBOX=/tmp/evalsb ./check "$id" --tier "$tier" > /tmp/evalsb/$id.log 2>&1)
  rc=$?
  e=$(date +%s)
  echo "$id rc=$rc $((e-s))s | $(grep '^OK\|^VIOLATION\|^INCONCLUSIVE' /tmp/evalsb/$id.log | head -1 | cut -c1-150) | $(grep -A1 '^VIOLATION' /tmp/evalsb/$id.log | sed -n 2p | cut -c1-220)"
done
git -C /tmp/evalrepo checkout -q -- .
