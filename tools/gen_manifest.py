#!/usr/bin/env python3
"""Regenerates /verif/MANIFEST.json from the table below (single source of truth for the interface)."""
import json
import os
import subprocess

VERIF = os.path.dirname(os.path.dirname(os.path.abspath(__file__)))

# property -> (category, level text, level note, technique, engine, design section)
CHECKS = {
    "C22": ("exploration",
            "every string of length <= 4 (quick) / 5 (thorough) over a 24-symbol alphabet is lexed by the real lexer and judged by "
            "coverage invariants and per-kind predicates; plus random unicode and corpus mutations. Exhaustive inside the stated bound, sampled beyond.",
            "trusts the hand-written per-kind predicates (derived from tokenizer.txt) and the probe's reading of Tokens through kind()/range()/iter()",
            "runtime monitoring: bounded-exhaustive + random inputs through the real lexer, invariant/predicate oracle on the observed tokens; a sample of the same run is interpreted by Miri (undefined-behaviour sanitizer)",
            "probe", "4/C22"),
    "C23": ("exploration",
            "every token sequence of length <= 5 (quick) / 6 (thorough) over three 14-token sets, nesting families to depth 200, soups and corpus "
            "mutations are parsed as source file and REPL line; monitors: panic capture, losslessness of the tree, error locations, and a logical "
            "step budget (hook H3) that turns a hang into an observable event.",
            "termination is judged on parser token look-ups (hook H3), not wall-clock; loops that never look at a token are out of reach here (C06 covers them at process level)",
            "runtime monitoring: instrumented step counter + losslessness oracle over bounded-exhaustive and mutated inputs; a sample of the same run is interpreted by Miri",
            "probe", "4/C23"),
    "C24": ("exploration",
            "expression trees (all of depth <= 2 over every operator, depth 3 over operator triples, random to depth 5, corpus expressions) are "
            "printed, parsed by the real parser and read back through the ast accessors; printed tree and parsed tree must be identical.",
            "the printer encodes the documented table; prefix-vs-postfix interplay is taken from the grammar's comments",
            "runtime monitoring: metamorphic print/parse/read-back oracle on the real parser; a sample of the same run is interpreted by Miri",
            "probe", "4/C24"),
    "C25": ("exploration",
            "every string of length <= 7 (quick) / 8 (thorough) over {a,\\n,\\r,\\t,é} x every byte offset, plus corpus and random texts, against an "
            "independent line/column model.",
            "model counts \\n bytes; headers: every diagnostic rendered (Diagnostic::display) for 64 / 400 erroneous programs laid out with \\r\\n, tabs and "
            "multi-byte text is compared with model(range start) + 1 (the probe pipeline reports the range start and the rendered header)",
            "runtime monitoring: exhaustive small-scope differential check of LineIndex against a reference model + monitor on the rendered `--> at file:line:col` "
            "header of real compilations; a sample of the LineIndex run is interpreted by Miri",
            "probe", "4/C25"),
    "C26": ("exploration",
            "breadth-first exploration of all protocol-conforming histories (<= 3/4 items, <= 8 rounds) of the real TopoSort in lock-step with a "
            "reference model, plus random longer histories; every observable (len, is_empty, in_cycle, peek_all, peek_all_cyclic) is compared at every round.",
            "the usage protocol is the one InferenceCtx::finish follows; histories recorded from real compilations are replayed in the pipeline part",
            "runtime monitoring: lock-step reference-model monitor over enumerated and random operation histories; a sample of the same run is interpreted by Miri",
            "probe", "4/C26"),
    "C17": ("exploration",
            "the real calc_layouts/GetLayoutInfo (hook H1) is run on a type universe that is exhaustive for unary constructors to depth 2 and for "
            "struct/enum shapes of <= 3 members over representative member types, sampled beyond (depth 3), for pointer widths 64 and 32; every "
            "observed layout is judged by the statement's rules, and flat structs of C scalars are compared with gcc's offsetof/sizeof/_Alignof.",
            "trusts gcc -O0 as the C layout reference and the probe's type construction (realisable types only)",
            "runtime monitoring: invariant predicates on hooked layout tables + differential check against the host C compiler",
            "probe", "4/C17"),
    "C27": ("exploration",
            "the real mangler (hook H1) is run on all entity descriptors over paths of <= 3 components from a hostile name pool (digits, dots, "
            "dashes, src, x.capy), under cwd and module dir, with all id combinations on a few paths and random descriptors; an inverse map "
            "detects any two descriptors sharing a symbol; three collision classes are recorded as known findings, two were repaired.",
            "descriptors are constructed directly (no compilation); realisability assumptions listed in the evidence",
            "runtime monitoring: injectivity monitor (inverse map) over enumerated inputs of the hooked mangler",
            "probe", "4/C27"),
    "C12": ("exploration",
            "the real Ty::can_fit_into/can_cast_to/is_weak_replaceable_by/max are run on all ordered pairs of a realisable type universe and judged "
            "by the statement's laws; the same laws are observed behaviourally through the real CLI on all pairs of ~45 typed value expressions "
            "(if/else with both branch orders, annotation vs cast), where an internal compiler error is also a violation.",
            "universe construction (realisability) and the checker's own notion of 'accepted where expected' (can_fit_into + zero-sized->type)",
            "runtime monitoring: algebraic-law oracle over enumerated inputs of the real relations + metamorphic (swapped-branch) CLI executions",
            "probe+cli", "4/C12"),
    "C08": ("exploration",
            "a systematic (type, operator, operand) matrix over all 12 integer types, f32/f64, bool and char (9x9 boundary grids, all shift amounts, "
            "unary ops, comparisons, every cast pair incl. int<->float around 2^24/2^53/2^63/2^64) is compiled by the real CLI; each result is observed "
            "as raw bytes at run time (operands via function parameters) and inside comptime, and compared with a big-integer/IEEE model.",
            "trusts python's integer and IEEE double arithmetic and gcc's linking of rt/vr_rt.c; float operands are restricted to exactly representable decimals",
            "runtime monitoring: reference-model oracle over a systematic operand matrix executed by the compiled programs (run time and comptime)",
            "cli", "4/C08"),
    "C03": ("exploration",
            "functions built from nested blocks / labeled blocks / while loops with defers and guarded jumps (systematic skeletons to depth 3/4 "
            "plus random shapes) are compiled by the real CLI and run once per jump selector; the event log (reached/ran markers, iteration markers) "
            "is judged by a trace-specification checker that only knows the static nesting, and compared with a reference interpreter.",
            "two independent oracles written from the statement; the resolution rule of unlabeled break/continue is taken from the README and hir lowering",
            "runtime monitoring: offline trace-specification checker (exactly-once / LIFO / not-left) over recorded event logs + reference-model log equality",
            "cli", "4/C03"),
    "C10": ("exploration",
            "programs with many indexing / #unwrap sites are compiled once by the real CLI and executed once per (site, runtime index) selected through "
            "the environment; the monitor sees exit status, fault message, markers before/after the access and the bytes of the indexed object between "
            "guard words as they are when the process exits (atexit dump) or right after an in-range access; literal indices are judged at compile time; constant-but-not-literal indices must be rejected or checked at run time; enums with discriminants packed into the automatic range are unwrapped as every (actual, requested) pair.",
            "expected memory images use the natural struct layout (validated by C17); fault text must contain 'index out of bounds' / mention unwrap",
            "runtime monitoring: guarded-memory watch + event-marker ordering oracle over per-site executions of the compiled program",
            "cli", "4/C10"),
    "C09": ("exploration",
            "literal uses (boundary values of every width x spellings x contexts, all printable escape letters, malformed char literals, strings with escapes, "
            "shortest round-trip decimals of random f32/f64 bit patterns) are compiled by the real CLI with one use per line, so the accept/reject decision of "
            "each literal is observed individually from the diagnostics' line numbers; the accepted ones are run and their bytes/values compared with the spelled value.",
            "an unknown escape or a malformed/non-u8 char literal is expected to be rejected; unannotated literals may be rejected by defaulting but never change value",
            "runtime monitoring: per-literal accept/reject observation + value oracle on the executed program",
            "cli", "4/C09"),
    "C11": ("exploration",
            "switches over generated enums / optionals / error unions (plain and distinct) with arbitrary arm subsets, duplicates, foreign and unknown variants "
            "and optional default arms are compiled with one switch per source line, so each accept/reject decision is observed individually; every accepted "
            "switch is executed once per runtime variant and must run exactly that variant's arm with its payload bound (default arm: the whole value).",
            "acceptance model written from the statement; dispatch observed through event ids printed by the arms",
            "runtime monitoring: per-switch accept/reject observation + per-variant execution with arm-id/payload oracle",
            "cli", "4/C11"),
    "C02": ("exploration",
            "write sites of every kind (variant->enum, payload/nil->optional, payload/error->error union, struct/array literals, anonymous reordered literals, "
            "aggregate copies into fields / elements / through ^mut, struct returns, default init) over object types of size 1..64 and alignments 1..8, placed "
            "between u8 guard fields, array neighbours or guard locals, are compiled by the real CLI and run; every guard is printed after every write and the "
            "object is read back; copy-semantics sites mutate a copy and re-read the original.",
            "guards are separate live values directly adjacent to the object; padding inside the object is not constrained",
            "runtime monitoring: guard-value (canary) monitor around every write + read-back oracle on the executed program",
            "cli", "4/C02"),
    "C07": ("exploration",
            "every corpus program and near-valid mutants of them (identifier swaps, := -> ::, type/literal/operator changes, deleted definitions, undefined "
            "names) are compiled twice: by `probe pipeline` (library level with track_unsafe_to_compile on: error diagnostics, unsafe flag, whether a type "
            "error names an expression) and by the real CLI (exit status, object file, internal errors, gcc link); the four claims of the statement are "
            "checked on each input; directed near-valid programs add (a) a comptime block that must be evaluated during type checking and reaches a function with a reported error in the same or an imported file (the function prints a marker when the compiler executes it) and (b) compound assignments whose value does not go with the operator. Crashes of the front end are counted and left to C06.",
            "the probe's driver mirrors main.rs; driver disagreements are inconclusive; linking ignores unresolved externs of snippets",
            "runtime monitoring: cross-checked observations (hooked library run vs. CLI process) of each compilation",
            "probe+cli", "4/C07"),
    "C06": ("exploration",
            "random UTF-8, token soups, nesting families to depth 200, byte/token mutations of the corpus (examples, core, parser fixtures, test snippets) and "
            "semantic near-valid mutants, alone and together with core, are each compiled by one real CLI process under RLIMIT_CPU/AS; the monitor sees exit "
            "status, signal, panic/verifier/internal-error text, CPU budget and whether an object file exists; allowed outcomes are exit 0 + object or exit 1 + "
            "error lines. Known crash sites are pinned (known_findings.json) and every other crash site is a violation.",
            "'bounded time' = 20 s CPU for inputs <= 64 KiB, re-run once alone before it counts; hangs of inputs containing comptime code are inconclusive",
            "runtime monitoring: process-level crash/hang monitor (exit status, signal, internal-error text, CPU budget) over generated and mutated inputs + valgrind memcheck on a sample of the compilations",
            "cli", "4/C06"),
    "C13": ("exploration",
            "variables of nominal types (distinct wrappers incl. distinct of distinct over 15 primitive bases, variants of two enums with identical payloads, "
            "structurally identical named structs, distinct arrays) are used where another nominal type or the own underlying type is expected (annotation, "
            "argument, tail/explicit return, assignment, binary operands in both orders); each case is one program compiled by the real CLI and must be rejected "
            "with a mismatch naming both types; positive cases (same type, literal into distinct, variant into own enum) must be accepted; casts "
            "distinct<->underlying are run and the value compared.",
            "a value of the underlying type flowing into its distinct wrapper is not constrained by the statement and not judged; see evidence assumptions",
            "runtime monitoring: per-case accept/reject observation of the real checker against a nominal-typing model + value oracle on executed casts",
            "cli", "4/C13"),
    "C14": ("exploration",
            "assignment targets root step* (<= 3 steps; roots: ::/:= locals, parameters, globals, locals/params holding ^X / ^mut X initialised in several ways; "
            "steps: .field, [i], ^, (), #unwrap) with =, the ten compound operators, ^mut path and ^path; expected rejects are compiled one per file, expected "
            "accepts are run: the written location is read back through the target path and through an alias pointer, and every i64/pointer leaf of every object "
            "is dumped and compared with a python memory model, so a lost or misplaced write is observed.",
            "the pointer TYPE decides mutability (statement: 'through an immutable pointer'); slices/any/raw pointers are outside the alphabet",
            "runtime monitoring: accept/reject observation against a path-mutability model + full memory-dump oracle on the executed program",
            "cli", "4/C14"),
    "C15": ("exploration",
            "expressions of every kind of the quantifier (literal, ::/:= locals, globals and chains, imported globals incl. chains through a third file with decoys, "
            "extern globals, comptime blocks, comptime/run-time parameters, arithmetic, call, member) are placed in every const position (array length in 4 "
            "sub-positions, enum discriminant, comptime argument, type annotation) under every declaration layout; const cases must be accepted and the observed "
            "array length / argument / tag byte / value must be what the expression denotes, non-const cases must be rejected with a not-const diagnostic.",
            "const-ness by the README rule; a comptime block reading a :: local is 'either' (only an internal error counts)",
            "runtime monitoring: per-case accept/reject observation + value oracle on the executed program (array length via .len and a store through the last index)",
            "cli", "4/C15"),
    "C21": ("exploration",
            "corpus programs, near-valid mutants and generated multi-file trees (valid and invalid, with and without core) are each built three times by fresh CLI "
            "processes (ASLR on; the third one in a directory that already holds a larger object of another program under the same name) and three times by `probe pipeline` with the files supplied in permuted orders; a struct-cast program is built six times; object bytes and the full diagnostic output "
            "are compared for equality; sampled builds run under memcheck with definedness tracking.",
            "timing fragments of the CLI output are masked; the CLI itself has no way to take a file list, so permuted orders go through the probe driver",
            "runtime monitoring: repeated-execution differential monitor (object hash + diagnostics) across fresh processes, dirty output directories and file orders + valgrind memcheck (definedness of the object bytes) on a sample",
            "probe+cli", "4/C21"),
    "C28": ("exploration",
            "random directory trees (<= 6 local files in <= 3 directories + a generated module directory, three cwd/module layouts) with random relative imports "
            "(.., ./, detours, cycles, self-imports, double spellings, #mod, imports into and out of the module dir, 25 kinds of invalid import) are compiled by "
            "the real CLI; monitors: diagnostics and exit status, the per-file header of --verbose-hir (compiled once), the resolved path of every import, and "
            "the program's output of a.b.id() along import paths; oracle: an import-resolution model written from the statement.",
            "lexical path cleaning; no symlinked detours; absolute import paths are not generated",
            "runtime monitoring: reference-model oracle over CLI diagnostics, parse-once event headers and the executed program's output",
            "cli", "4/C28"),
    "C18": ("exploration",
            "programs declaring up to 30 generated types (C17's universe at depth <= 2, plus aliases, re-written structural types and structurally identical twin "
            "declarations) print, for every type, primitive and variant type, what core.meta reports (size/align/stride, kind, int width+sign, array len, sub types, "
            "member names/types/offsets, variants, discriminants, tag offsets) at run time and from a comptime block; in the same program they print what address "
            "arithmetic on real places measures (wrapper-struct offsets, [2]T element distance, field offsets, .len, sign of all-ones, tag byte located by storing "
            "every variant into zeroed memory), the equality class of every type value against the whole table (run time, comptime, literal `A == B`), and the type "
            "carried by an `any` made from a value (assignment, any parameter, ...any, cast expression, after widening). Reflected = measured = declared; equal iff same type.",
            "same-type rule (aliases and re-written structural types are equal, every struct/enum/distinct declaration and variant is its own type, isize != i64) and "
            "'wrapper-field distance = size the code uses' are assumptions listed in the evidence; the C17 layout rules are only a third opinion; global "
            "`X :: comptime { core.meta... }` is rejected by capy, so comptime reflection runs in a comptime block inside main",
            "runtime monitoring: reflection stream vs address-arithmetic measurements vs declaration on the executed program, pairwise type-value equality masks, any-type masks",
            "cli", "4/C18"),
    "C01": ("exploration",
            "random well-typed programs of the whole fragment (all integer widths, bool, char, f32/f64 lightly, arrays, slices, structs, enums with payloads and custom "
            "discriminants, optionals, error unions, pointers, functions, lambdas/function pointers, while/loop, labeled blocks, break/continue/return, switch, "
            "#unwrap/#is_variant, .try, casts, varargs, defer, shadowing, global consts; <= 12 globals, <= 40 statements per function, nesting <= 6, loops <= 64 "
            "iterations; 15% with a planned runtime fault, 50% with an integer main result) are built as a typed AST, compiled by the real CLI, linked and run; the "
            "executable's event log (one unique id per print) and exit status are compared line by line with an independent reference interpreter written from the "
            "README; a rejection or internal error of a well-typed program is a violation; witnesses are delta-minimised on the AST.",
            "the generator defines 'well-typed'; reference interpreter from README + C08's arithmetic; no program depends on evaluation order of operands; exit status "
            "compared mod 256; whether a switch argument aliases the scrutinee is not judged (README silent)",
            "runtime monitoring: translation validation by execution (typed program generator + independent reference interpreter vs. event log and exit status of the real executable)",
            "cli", "4/C01"),
    "C04": ("exploration",
            "programs of 12 comptime blocks: deterministic bodies of every accepted result type (12 integer types incl. i128/u128/isize/usize with edge values, f32/f64, "
            "bool, char, str and distinct str (escapes, up to 300 bytes), nested/struct/enum arrays, nested structs, payload enums, optionals, error unions, `type`) built "
            "from arithmetic, casts, loops, recursion, switch, labeled blocks, pointers, lambdas/fn pointers, #unwrap/#is_variant, .try, return, const globals and nested "
            "comptime, placed in 13 ways (global / typed / aliased global, ::, :=, annotated local, inline argument, inside a function, run-time loop, lambda, double "
            "comptime, imported file, derived from another comptime global); the same body runs at run time in the same program and both values are printed leaf by leaf "
            "by the same printer and compared (and with the python-computed value); side-effect markers inside comptime bodies must occur in the compiler's output and "
            "never in the program's; pointer-carrying results (24 negative programs) must be rejected without crash; sampled compilations run under valgrind memcheck.",
            "run-time copy is the reference only where it equals the python model (else inconclusive); padding bytes are not constrained; comptime inside generic "
            "functions and inline array types in global annotations are probed once (known findings) and kept out of the bulk generator",
            "runtime monitoring: metamorphic comparison of the executed program's output (comptime copy vs run-time copy through the same printer) + python value oracle + compiler/program stdout side-effect markers + valgrind memcheck on sampled compilations",
            "cli", "4/C04"),
    "C05": ("exploration",
            "random programs over the identifier pool {a,b,c,d,u8,nil} with nested blocks, same-block shadowing, switch arguments (statement/expression, payload uses), "
            "(comptime) parameters, non-capturing lambdas, comptime blocks, assignments, literal globals at any file position and an imported file with same-named "
            "globals; every binding has a unique value; for every use site the position of `undefined reference` diagnostics (negative/mixed programs) and the printed "
            "value (positive/mixed programs, up to 3 branch selectors) are compared with a scope model implementing the statement's lookup order; uses after a "
            "switch/block/lambda of the names bound inside are generated deliberately.",
            "lambdas and comptime blocks start from an empty local scope (hand-verified, pinned by the repo's own lowering snapshot); built-in level judged only for order; "
            "comptime blocks are not generated inside generic functions (known todo!())",
            "runtime monitoring: per-use-site diagnostic-position observation + executed-value oracle (unique value per binding) against an independent scope model and AST interpreter",
            "cli", "4/C05"),
    "C16": ("exploration",
            "two-file programs with 2-4 generic functions from 8 families, 1-3 comptime parameters (types of every integer width / floats / bool / char / distinct / "
            "structs / array types; integers of 9 types; bool; `comptime D: T`), inline header references, varargs, nested generic calls, imported generics that use "
            "their own file's globals, type-returning generics; each generic is instantiated 1-4 times with equal and single-argument-conflicting arguments, interleaved; "
            "for every instantiation a hand-substituted copy (substitution on the generator's AST) is called with the same run-time arguments; event logs of generic "
            "call, copy and an independent interpreter must agree; rejected programs are re-compiled with copies only to attribute the rejection.",
            "trusts the substitution rules in ASSUME and the reference interpreter; features that crash the compiler are only probed by pinned programs (known findings); "
            "instantiations with identical representation are exercised but not distinguishable",
            "runtime monitoring: event-log equivalence of generic call vs generator-made substituted copy vs independent interpreter on the executed program, with per-run oracle self-check on doctored logs",
            "cli", "4/C16"),
    "C20": ("exploration",
            "generated programs with 3-12 interdependent globals of 14 kinds (type aliases, distinct, comptime-computed types, type-returning generics, structs with "
            "const-sized arrays, enums with const discriminants, literal/reference/comptime consts, comptime struct globals, functions, (mutually) recursive functions, "
            "generics, function aliases) are rendered in a canonical layout, 6 permutations and 4 partitions into 2-3 files with cyclic imports and random entry file; "
            "every layout must be accepted iff the canonical one is and its executable must print exactly what the canonical one prints, which in turn must equal a "
            "python reference evaluation; hook H2 counts the distinct inference schedules the layouts produced.",
            "README silence on definition order, import cycles and cross-file access is read as 'allowed'; only verdict and behaviour are compared (object bytes are C21's subject)",
            "runtime monitoring: metamorphic comparison of executions across layouts of one program + reference oracle; scheduling-log hook as reach evidence",
            "probe+cli", "4/C20"),
    "C19": ("exploration",
            "random and fixed-core signatures (0-8 parameters, scalars and flat structs up to 64 bytes covering INTEGER/SSE/MEMORY classes, register "
            "exhaustion, sret) are exercised in both directions (capy calls extern C; C calls a capy function pointer) against C code compiled by the host "
            "gcc at -O0 and -O2; both sides print the bytes of every parameter and return value, the generator's constants are the oracle.",
            "x86-64 SysV only; 128-bit integers, nested structs, varargs and non-pointer optionals by value are outside the comparison",
            "runtime monitoring: differential execution against the host C compiler with byte-exact value oracle",
            "cli", "4/C19"),
}

NOT_YET = "no check registered"

ALL = [f"C{i:02d}" for i in range(1, 29)]


def main():
    hooks_commits = subprocess.run(["git", "-C", "/repo", "log", "--format=%h %s", "--grep", "verif hook"], capture_output=True, text=True).stdout.strip().splitlines()
    man = {
        "version": 1,
        "setup_cmd": "cd /verif && ./setup.sh",
        "hooks": {
            "guard": "cfg(capy_verif)",
            "enable": "RUSTFLAGS=\"--cfg capy_verif\" when building /verif/harness/probe (path dependencies on /repo/crates/*); the CLI itself is built without the flag",
            "baseline_off_cmd": "cd /repo && cargo test --workspace --no-fail-fast --offline",
            "source_commits": [c.split()[0] for c in hooks_commits],
            "add_only": True,
        },
        "engines": [
            {"name": "probe", "path": "/verif/harness/probe", "serves_properties": sorted(k for k, v in CHECKS.items() if "probe" in v[4]),
             "kind_free_text": "Rust binary linking the real capy crates (hooks on); generators, oracles and reference models inside; one JSON report per run"},
            {"name": "cli+programs", "path": "/verif/vlib", "serves_properties": sorted(k for k, v in CHECKS.items() if "cli" in v[4]),
             "kind_free_text": "python3 drivers: generated capy programs compiled by the real release CLI, linked with rt/vr_rt.c, executed under rlimits; reference models and trace checkers in python"},
            {"name": "miri", "path": "/verif/harness/probe", "serves_properties": ["C22", "C23", "C24", "C25", "C26"],
             "kind_free_text": "the probe built with --no-default-features (front-end crates only, hooks on) interpreted by `cargo +nightly miri run` in parallel shard processes: undefined behaviour in the lexer/parser/ast/line_index/topo code paths the lite workloads reach is reported as a violation"},
            {"name": "valgrind-memcheck", "path": "/usr/bin/valgrind", "serves_properties": ["C04", "C06", "C21"],
             "kind_free_text": "the release CLI run under valgrind memcheck on sampled compilations: addressability errors inside the compiler (C04, C06) and uninitialised bytes reaching the object file (C21)"},
        ],
        "checks": [],
        "not_applicable": [],
        "notes": "All checks: ./check <id> --tier quick|thorough; exit 0 held / 1 violation / 2 inconclusive. Technique family: runtime monitoring and sanitizers only.",
    }
    for pid in ALL:
        if pid in CHECKS:
            cat, text, note, tech, engine, ref = CHECKS[pid]
            man["checks"].append({
                "property_id": pid,
                "quick_cmd": f"./check {pid} --tier quick",
                "thorough_cmd": f"./check {pid} --tier thorough",
                "evidence_file": f"/verif/evidence/{pid}.json",
                "replay_cmd_template": f"./check {pid} --replay {{path}}",
                "engine": engine,
                "level_claimed": {"category": cat, "text": text, "design_ref": f"DESIGN.md section {ref}"},
                "level_note": note,
                "technique": tech,
            })
        else:
            man["not_applicable"].append({"property_id": pid, "reason": NOT_YET})
    with open(os.path.join(VERIF, "MANIFEST.json"), "w") as fh:
        json.dump(man, fh, indent=1)
    print(f"MANIFEST.json: {len(man['checks'])} checks, {len(man['not_applicable'])} not claimed")


if __name__ == "__main__":
    main()
