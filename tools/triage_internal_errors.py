#!/usr/bin/env python3
"""Development tool (never run by a check): turns the internal-error violations of a C06/C07 run into known-finding entries.
For every distinct signature under /verif/replay/<prop>/ it minimises the witness (token-level delta debugging, same signature
required), writes kf/<id>.capy and appends an entry to known_findings.json (pinned_internal_error: true)."""
import glob, hashlib, json, os, re, sys
sys.path.insert(0, os.path.dirname(os.path.dirname(os.path.abspath(__file__))))
from vlib import common as C, capyrun as R
from vlib.checks.c06 import TOKEN_RE

prop = sys.argv[1] if len(sys.argv) > 1 else "C06"
kf = json.load(open(os.path.join(C.VERIF, "known_findings.json")))
work = C.fresh_dir("triage")


def sig_of(text, n=[0]):
    n[0] += 1
    c = R.compile_capy(os.path.join(work, "m"), {"main.capy": text}, cpu_s=10)
    if not c.internal_error:
        return None
    return "internal_error|" + c.panic_sig()


def minimise(text, sig):
    toks = TOKEN_RE.findall(text)
    chunk = max(1, len(toks) // 2)
    while chunk >= 1:
        i = 0
        changed = False
        while i < len(toks):
            cand = toks[:i] + toks[i + chunk:]
            if cand and sig_of("".join(cand)) == sig:
                toks = cand
                changed = True
            else:
                i += chunk
        if chunk == 1 and not changed:
            break
        chunk = max(1, chunk // 2) if not changed or chunk > 1 else 1
        if chunk == 1 and changed:
            continue
    return "".join(toks)


seen = set()
added = 0
for f in sorted(glob.glob(os.path.join(C.VERIF, "replay", prop, "*", "witness.json"))):
    w = json.load(open(f))
    if w.get("key") != "internal_error":
        continue
    text = (w.get("witness") or {}).get("files", {}).get("main.capy")
    if text is None:
        continue
    sig = sig_of(text)
    if sig is None or sig in seen:
        continue
    seen.add(sig)
    if C.match_known("C06", {"key": "internal_error", "sig": sig}, kf):
        continue
    small = minimise(text, sig)
    hid = hashlib.sha1(sig.encode()).hexdigest()[:8]
    name = f"kf/CRASH_{hid}.capy"
    open(os.path.join(C.VERIF, name), "w").write(small)
    parts = sig.split("|")
    what = f"the compiler panics in {parts[3] or parts[2]} ({parts[2]}): {parts[4] if len(parts) > 4 else ''}" if parts[1] == "panic" else f"the compiler ends with {sig}"
    kf["findings"].append({"id": f"CRASH-{hid}", "property": "C06", "properties": ["C07", "C01"], "key": "internal_error", "sig": sig,
                           "what": what + f"; minimal input: {small.strip()[:160]!r}", "repro": name, "pinned_internal_error": True,
                           "why_not_fixed": "one of many unguarded unwrap/unreachable/assert sites on invalid or unusual input; recorded, not repaired"})
    added += 1
    print("added", sig[:150], "->", name, len(small), "bytes")
json.dump(kf, open(os.path.join(C.VERIF, "known_findings.json"), "w"), indent=1)
print("added", added, "entries")
